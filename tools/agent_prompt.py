import json, sys
pid, tag, hint = sys.argv[1], sys.argv[2], sys.argv[3]
prop = open(f"/tmp/seeded-out/prop-{pid}.json").read()
print(f"""You are helping to evaluate a verification effort for the Rust crate cloudwego/sonic-rs (a SIMD-accelerated JSON library). Your job: produce ONE realistic, subtle code change (a "seeded bug") to sonic-rs that BREAKS the semantic property below, while the crate still compiles and its existing test suite still passes.

Work ONLY inside your own scratch git worktree of the repository: /tmp/wt-{tag}  (do NOT touch /repo, do NOT read or touch /verif, do not look at any other /tmp/wt-* directory). Everything is offline: use `cargo ... --offline`, nothing can be downloaded.

The property (one JSON record):
{prop}

Requirements for the change:
1. It must break the property for real: there is a concrete input / operation sequence / schedule / fault on which the changed library violates the statement, and on which the unchanged library behaves correctly.
2. The crate must still compile and the existing tests must still pass with your change: run `cd /tmp/wt-{tag} && cargo test --workspace --no-fail-fast --offline 2>&1 | grep -E "^test result|FAILED|failed"` and confirm there are no failures (doc tests included). If a test fails, pick a different change.
3. The bug must need something specific to manifest — {hint} — not something ordinary use would expose at once (a change that breaks every call is useless). Think like a plausible refactoring slip, an off-by-one, a wrong ordering, a missed case, a "harmless" optimisation, two cooperating sites that each look fine alone. Keep it small (a few lines). Do not add new dependencies. Do not touch tests, src/verif.rs, or anything guarded by cfg(sonic_rs_verif); leave those hooks exactly as they are.
4. Provide a demonstration: a small standalone Rust program (a crate under /tmp/seeded-out/{tag}/demo with `sonic-rs = {{ path = "/tmp/wt-{tag}" }}`; copy /tmp/wt-{tag}/Cargo.lock into it and add an empty `[workspace]` table to its Cargo.toml) or a test, which FAILS (non-zero exit / panic / wrong output / sanitizer or Miri error) with your change and PASSES on the unchanged code. Verify both directions yourself: run it with your change applied, then save and remove the change (`git -C /tmp/wt-{tag} diff > /tmp/seeded-out/{tag}/patch.diff && git -C /tmp/wt-{tag} checkout -- .`), run again, then re-apply it (`git -C /tmp/wt-{tag} apply /tmp/seeded-out/{tag}/patch.diff`). Do NOT use `git stash` (the stash is shared between worktrees and other agents are working in sibling worktrees). If the demonstration needs a tool (e.g. `cargo +nightly miri run --offline`, valgrind, a specific thread interleaving forced with barriers/sleeps), say exactly how to run it.

Deliverables, all under /tmp/seeded-out/{tag}/ :
- patch.diff : output of `git -C /tmp/wt-{tag} diff` (the change only; do not commit it)
- demo/ : the demonstration crate (or demo_test.rs with instructions)
- README.md : what the change is, why it breaks the property, exactly what is needed for it to manifest, the exact commands you ran and what they printed in both directions, and the result of the test suite with the change.
Leave the change applied (uncommitted) in /tmp/wt-{tag} when you finish. Remove the demo's target directory when done to save disk (`rm -rf /tmp/seeded-out/{tag}/demo/target`). In your final answer, summarise the change in 5-10 lines.""")
