#!/bin/bash
# Determinism self-test: every run index of every sim is executed in several processes, with
# different worker splits (so different predecessors in the same process), in both build
# configurations, and the per-run trace hashes / choice counts / verdicts are diffed.
# usage: selftest_determinism.sh [runs-per-sim] [sims...]
set -u
VERIF="$(cd "$(dirname "${BASH_SOURCE[0]}")" && pwd)"
N="${1:-4000}"; shift || true
SIMS="${*:-$("$VERIF/sim/target-native/release/dsim" list-sims)}"
"$VERIF/check" build || exit 2
W="$VERIF/work/selftest"; rm -rf "$W"; mkdir -p "$W"
fail=0
for sim in $SIMS; do
  for cfg in native baseline; do
    B="$VERIF/sim/target-$cfg/release/dsim"
    # pass A: one process; pass B: 8 processes over disjoint ranges; pass C: 3 processes, run twice
    "$B" worker --sim $sim --seed 7 --from 0 --count $N --out $W/a.json --hash-log $W/$sim-$cfg-A.log --max-violations 1000000 >/dev/null 2>&1 &
    per=$(( (N + 7) / 8 ))
    for w in 0 1 2 3 4 5 6 7; do
      "$B" worker --sim $sim --seed 7 --from $((w*per)) --count $per --out $W/b$w.json --hash-log $W/$sim-$cfg-B$w.log --max-violations 1000000 >/dev/null 2>&1 &
    done
    per3=$(( (N + 2) / 3 ))
    for w in 0 1 2; do
      "$B" worker --sim $sim --seed 7 --from $((w*per3)) --count $per3 --out $W/c$w.json --hash-log $W/$sim-$cfg-C$w.log --max-violations 1000000 >/dev/null 2>&1 &
    done
    wait
    cat $W/$sim-$cfg-B?.log | sort -n | head -$N > $W/$sim-$cfg-B.log
    cat $W/$sim-$cfg-C?.log | sort -n | head -$N > $W/$sim-$cfg-C.log
    sort -n $W/$sim-$cfg-A.log > $W/$sim-$cfg-A.sorted
    for other in B C; do
      if ! cmp -s $W/$sim-$cfg-A.sorted $W/$sim-$cfg-$other.log; then
        echo "NONDETERMINISM sim=$sim config=$cfg pass A vs $other:"; diff $W/$sim-$cfg-A.sorted $W/$sim-$cfg-$other.log | head -5; fail=1
      fi
    done
    echo "sim=$sim config=$cfg runs=$(wc -l < $W/$sim-$cfg-A.sorted) violations=$(awk '$5!="-"' $W/$sim-$cfg-A.sorted | wc -l) deterministic-so-far=$((1-fail))"
  done
  # informational: the two build configurations normally agree run by run; they may legitimately
  # differ where a run depends on the iteration order of a hashed object (ahash picks a different
  # hash function when AES instructions are available), which is why replay files name their config
  nd=$(diff $W/$sim-native-A.sorted $W/$sim-baseline-A.sorted | grep -c '^<')
  echo "sim=$sim runs differing between native and baseline: $nd of $(wc -l < $W/$sim-native-A.sorted)"
done
[ $fail -eq 0 ] && echo "DETERMINISM OK" || echo "DETERMINISM FAILED"
exit $fail
