#!/usr/bin/env python3
"""Writes MANIFEST.json (kept in a script so the N/A reasons and check texts live in one place)."""
import json, subprocess

hook_commits = [l.split()[0] for l in subprocess.run(
    ["git", "-C", "/repo", "log", "--format=%h %s"], capture_output=True, text=True).stdout.splitlines()
    if "verif hook" in l]

NA = {
 "C01": "pure function of the input bytes (panic/abort/memory-safety freedom over all inputs): no schedule, clock, I/O fault or interleaving in the statement, so deterministic simulation has nothing to decide; see DESIGN.md section 3",
 "C02": "accept/reject is a pure function of the input bytes; the only I/O carrier (from_reader) is read_to_end followed by from_slice, so there is no fault or schedule to simulate",
 "C03": "tree equality with the reference is a pure function of the input text and a config flag",
 "C04": "differential behaviour of typed deserialization over inputs x types; nothing to schedule or fail",
 "C06": "parse/serialize fixpoint is a pure function of the input text",
 "C07": "pure function of a number literal",
 "C08": "pure function of a number value",
 "C09": "pure function of a string literal, its length and alignment (alignment sweeps are input enumeration, not simulation)",
 "C10": "pure function of (document, path)",
 "C11": "pure function of (document, path set / schema)",
 "C12": "iterator output is a pure function of the input; the end/error latch has no nondeterminism behind it",
 "C14": "pure function of arbitrary input bytes",
 "C17": "a property of two build configurations of a pure function; no run-time nondeterminism (every claimed check does run under both SIMD configurations, as configuration coverage only)",
 "C19": "pure function of a Rust value; two deterministic conversion routes compared",
 "C20": "error position is a pure function of the input; the stream/iterator latch is deterministic",
}

CHECKS = {
 "C18": dict(
   level="exploration",
   text="Seeded search over schedules and atomic-operation outcomes: 2-3 simulated caller threads (real OS threads under a baton scheduler driven by one choice stream) read, clone and drop one shared LazyValue / OwnedLazyValue, with a context switch possible before every load / compare-exchange of the cache field and directly behind every compare-exchange, references handed out by the library held across switches, and every compare_exchange_weak allowed to fail spuriously; oracles: every returned value equals the model, no crash, no call exceeds its progress bound, simulated heap shows every decoding freed exactly once with its own layout and nothing leaked. A second engine (Miri, many seeds) runs the same scenario shapes under the Rust abstract machine to catch what a serialising scheduler cannot (missing acquire/release, invalid references). Sampling, not enumeration: a clean batch is evidence, not proof.",
   design_ref="DESIGN.md section 3 (C18), sections 2.2-2.4, 2.9",
   note="Trusted: std Arc/atomics, the System allocator under the ledger, faststr, the reference JSON model (self-tested at start-up). The baton scheduler serialises threads, so weak-memory effects are only seen by the Miri engine, which cannot run more than a few hundred seeds. Documents are small and well-formed.",
   technique="deterministic simulation: seeded schedule + weak-CAS fault injection over real threads (baton scheduler), simulated heap; Miri many-seeds as second deterministic engine",
   engine="dsim cache + miri",
 ),
}

CHECKS["C05"] = dict(
   level="fault_enumeration",
   text="Typed value trees drawn model-first (every serde data-model entry point, strings placed 0..40 bytes before an unmapped page) are serialized compact and pretty through every supported writer stack (to_string/to_vec, &mut Vec, Box, BytesMut writers, BufferedWriter, io::BufWriter with several capacities, a user WriteExt whose reserved window ends at an unmapped page, and nestings). Fault-free output must equal the reference rendering byte for byte (float tokens by value), be valid UTF-8 and well-formed JSON, and pretty must equal compact re-indented. Under an injected writer fault (permanent error or Ok(0) after n bytes, error at call c, reserve_with/flush_len error; transient short writes and EINTR on top) the call must return Err and the bytes the sink accepted must be a prefix of the correct output. Quick: one drawn fault point per run (plus a small Miri sample); thorough: every byte offset and call index enumerated per value for every fault kind (outputs longer than 1.5 KB: the first and last 400 offsets and 700 evenly spread ones), and a Miri sample of the same runs.",
   design_ref="DESIGN.md section 3 (C05), section 2.5",
   note="Trusted: the reference escaper/re-indenter (self-tested), std io::BufWriter, bytes, itoa, ryu (float spelling is compared by value only). Exhaustive over fault positions per generated value, sampled over values. Hash-ordered (mutated) objects are not embedded.",
   technique="deterministic simulation: fault-injecting writer seams (short write, EINTR, permanent error, Ok(0), reserve/flush_len failure) with guard pages; seeded values, enumerated fault positions",
   engine="dsim io + miri sample",
)
CHECKS["C16"] = dict(
   level="exploration",
   text="Seeded search over operation histories and schedules: 1-3 simulated caller threads (real OS threads with their real thread-local node buffer, serialised by a baton scheduler driven by one choice stream) parse documents by ten routes (incl. malformed documents through deserializers that already produced values, repeated texts, hand-off to another thread followed by a re-parse), run several values through one deserializer or stream, clone roots and subtrees, take children out, insert values into other documents, mutate, send values to other threads and drop everything in drawn orders (every survivor re-read after each final drop; thorough tier: for single-threaded runs ending with 2-5 sharers EVERY drop order is enumerated), with a context switch possible before every arena reference-count operation. One run in three uses the simulated heap's reuse mode (freed blocks handed out again by size, randomised) so that address-reuse defects can show. Oracles: every read of every survivor equals its model (freed memory is poisoned and quarantined, so a premature release cannot pass), the simulated heap reports any double/invalid/wrong-layout free, write-after-free, overflow or leak, and the number of live arenas (hook events) never exceeds the number of documents/deserializers that can still be referenced and returns to zero at the end. A second engine (Miri, many seeds, free-running threads) runs the same scenarios under the Rust abstract machine with its data-race detector.",
   design_ref="DESIGN.md section 3 (C16), sections 2.2-2.4",
   note="Trusted: std Arc, bumpalo, the System allocator under the ledger. The native engine sees memory errors through the simulated heap and serialises threads, so data races are the business of the Miri engine (which needs the second guarded hook, see hooks), limited to a few hundred seeds. Small documents, <= 3 threads, <= 40 operations per thread.",
   technique="deterministic simulation: seeded histories + schedules over real threads (baton scheduler), simulated heap with poison/quarantine/reuse/leak ledger, arena conservation invariant from hook events, drop orders enumerated in the thorough tier; Miri many-seeds as second deterministic engine",
   engine="dsim arena + miri",
)

CHECKS["C13"] = dict(
   level="exploration",
   text="Seeded search over operation histories: a well-formed document is drawn model-first and rendered with recorded value spans; lazy handles are obtained by every public route (get on every carrier, get_unchecked, get_many, iterators, serde borrowed/owned, From<LazyValue>, to_lazyvalue, literals) and a drawn history of reads, child handles, clones, borrowed-to-owned conversions, Value::try_from, take, as_array_mut/as_object_mut + Vec operations, get_mut/pointer_mut + assign/take runs over a pool of handles with the model updated in lock-step. After every step every live handle is re-serialized by a drawn method and compared with its model: raw text verbatim for untouched parts, model equality by reference re-parse; accessors (type, bool, number, string, raw number, children by get/pointer/iteration) are compared with the model of the raw text. The simulated heap checks frees and leaks of the take-out-of-the-box path.",
   design_ref="DESIGN.md section 3 (C13)",
   note="Trusted: the reference JSON model and span scanner (self-tested). Single simulated caller (threads are C18's business). One run in four repeats member names (a lookup by key then means the first member, as in the DOM); number literals from the full RFC 8259 grammar. A clone of a value whose cache may be loaded may serialize in its one-level parsed form.",
   technique="deterministic simulation: seeded operation histories against a lock-step reference model, simulated heap (ledger/poison/leak check); no scheduler or I/O faults are involved in this property",
   engine="dsim lazy + miri sample",
)

CHECKS["C15"] = dict(
   level="exploration",
   text="Seeded search over operation histories: a pool of up to six live (Value, model) pairs seeded from parsed roots (in-place and copying parse paths), macro- and conversion-built values and empty containers; a drawn history of 2-48 steps over the whole public mutation API of Array, Object (incl. the Entry API) and Value (IndexMut with every index type, get_mut, pointer/pointer_mut incl. empty and absent paths, take, clone of roots and subtrees, cross-assignment between pool members, into_array/into_object, equality), including operations the reference rejects. After every step the returned result is compared with the model's and ALL pool members are dumped through the public read API and compared with their models, which is what shows that mutating one value never changes another (the document it was cloned or taken from, earlier clones). Rejected operations must fail (None or documented panic) and change nothing. The simulated heap checks frees and leaks of the copy-on-write promotion.",
   design_ref="DESIGN.md section 3 (C15)",
   note="Trusted: the reference model (vectors and ordered key/value lists compared as unordered maps). Single simulated caller. No duplicate keys. Capacity and member order of promoted objects are not compared. Every container operation is entered both through as_array_mut/as_object_mut (promotes first) and through a typed Array/Object handle taken out of its place; array::IntoIter is held to vec::IntoIter incl. as_slice/as_mut_slice (finding F14). A Miri sample runs in both tiers.",
   technique="deterministic simulation: seeded operation histories against a lock-step array/map reference model with a full dump of every live value after every step; simulated heap (ledger/poison/leak check)",
   engine="dsim dom + miri sample",
)

PENDING = {
 "C13": "check under construction in this session (planned: claimed, exploration over operation histories)",
 "C15": "check under construction in this session (planned: claimed, exploration over operation histories)",
 "C16": "check under construction in this session (planned: claimed, exploration over histories and schedules)",
}

checks = []
for pid, c in sorted(CHECKS.items()):
    checks.append({
        "property_id": pid,
        "quick_cmd": f"./check {pid} quick",
        "thorough_cmd": f"./check {pid} thorough",
        "evidence_file": f"/verif/evidence/{pid}.json",
        "replay_cmd_template": "./check replay {path}",
        "engine": c["engine"],
        "level_claimed": {"category": c["level"], "text": c["text"], "design_ref": c["design_ref"]},
        "level_note": c["note"],
        "technique": c["technique"],
    })

na = [{"property_id": k, "reason": v} for k, v in sorted({**NA, **{k: v for k, v in PENDING.items() if k not in CHECKS}}.items())]

manifest = {
 "version": 1,
 "setup_cmd": "./check build",
 "hooks": {
   "guard": "sonic_rs_verif",
   "enable": "RUSTFLAGS=\"--cfg sonic_rs_verif\" (set by ./check for all three build configurations: native, baseline, native with debug assertions; /repo/Cargo.toml and Cargo.lock carry no new dependency)",
   "baseline_off_cmd": "cd /repo && cargo nextest run --workspace --no-fail-fast --tool-config-file pb:/w/lib/nextest.toml --profile pb --test-threads 8 --offline || (cd /repo && cargo test --workspace --no-fail-fast --offline)",
   "source_commits": hook_commits,
   "add_only": False,
 },
 "engines": [
   {"name": "dsim", "path": "/verif/sim", "serves_properties": sorted(CHECKS.keys()),
    "kind_free_text": "deterministic simulator: one choice stream per run (workload, schedule, faults, knobs), baton scheduler over real OS threads, simulated heap (ledger, poison, quarantine, canaries, leak check), fault-injecting writers, reference JSON model, supervisor/worker processes with crash capture, choice-stream minimiser and replay"},
   {"name": "miri-many-seeds", "path": "/verif/sim (cargo +nightly miri)", "serves_properties": ["C18"],
    "kind_free_text": "Miri as a second deterministic engine: -Zmiri-seed=N decides preemption, weak-memory loads and spurious weak-CAS failures"},
 ],
 "checks": checks,
 "not_applicable": na,
 "notes": "Technique family: deterministic simulation with fault injection. Properties that are pure functions of their input are listed as not applicable on purpose (see DESIGN.md sections 0 and 3). add_only is false because two `use` lines are cfg-split; everything else the hook commit does is additive.",
}
json.dump(manifest, open("/verif/MANIFEST.json", "w"), indent=1)
print("wrote MANIFEST.json:", len(checks), "checks,", len(na), "not applicable")
