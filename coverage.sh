#!/bin/bash
# Reach measurement: builds dsim with source-based coverage (nightly toolchain + its llvm-tools), runs every
# sim for N runs, and reports line/function coverage of the sonic-rs files each property anchors in, plus the
# functions of those files that no sim ever entered. Output: /verif/work/coverage/
# usage: coverage.sh [runs-per-sim]
set -u
VERIF="$(cd "$(dirname "${BASH_SOURCE[0]}")" && pwd)"
N="${1:-30000}"
TOOLS=$(dirname $(find ~/.rustup/toolchains/nightly-x86_64-unknown-linux-gnu -name llvm-profdata | head -1))
OUT="$VERIF/work/coverage"; rm -rf "$OUT"; mkdir -p "$OUT"
cd "$VERIF/sim" || exit 2
CARGO_NET_OFFLINE=true RUSTFLAGS="--cfg sonic_rs_verif --cfg fuzzing -C instrument-coverage -C target-cpu=native" \
  cargo +nightly build --release --offline --target-dir target-cov 2> "$OUT/build.log" || { tail -20 "$OUT/build.log"; exit 2; }
B=target-cov/release/dsim
for sim in cache io arena lazy dom; do
  for w in 0 1 2 3; do
    LLVM_PROFILE_FILE="$OUT/$sim-$w.profraw" $B worker --sim $sim --seed 99 --from $((w*N/4)) --count $((N/4)) --out "$OUT/$sim-$w.json" >/dev/null 2>&1 &
  done
  # the thorough-tier fault enumeration of the io sim
  if [ $sim = io ]; then LLVM_PROFILE_FILE="$OUT/io-enum.profraw" $B worker --sim io --seed 98 --from 0 --count 300 --enumerate --out "$OUT/io-enum.json" >/dev/null 2>&1 & fi
  wait
  "$TOOLS/llvm-profdata" merge -sparse "$OUT"/$sim-*.profraw -o "$OUT/$sim.profdata"
done
"$TOOLS/llvm-profdata" merge -sparse "$OUT"/*.profraw -o "$OUT/all.profdata"
"$TOOLS/llvm-cov" report $B -instr-profile="$OUT/all.profdata" /repo/src 2>/dev/null | cat > "$OUT/report-all.txt"
for sim in cache io arena lazy dom; do
  "$TOOLS/llvm-cov" report $B -instr-profile="$OUT/$sim.profdata" /repo/src 2>/dev/null | cat > "$OUT/report-$sim.txt"
done
# functions never entered, per anchored file
for f in src/serde/ser.rs src/format.rs src/util/string.rs src/writer.rs src/lazyvalue/value.rs src/lazyvalue/owned.rs src/lazyvalue/ser.rs src/lazyvalue/de.rs src/lazyvalue/get.rs src/lazyvalue/iterator.rs src/value/node.rs src/value/array.rs src/value/object.rs src/index.rs src/value/from.rs src/value/partial_eq.rs src/value/shared.rs src/value/tls_buffer.rs src/value/de.rs; do
  "$TOOLS/llvm-cov" report $B -instr-profile="$OUT/all.profdata" -show-functions /repo/$f 2>/dev/null | awk 'NR>2 && $0 !~ /^-/ && $0 !~ /^TOTAL/ {print}' > "$OUT/functions-$(echo $f | tr '/' '_').txt"
done
echo "coverage of /repo/src by all sims together (line coverage per anchored file):"
awk 'NR==1 || /serde\/ser.rs|format.rs|util\/string.rs|writer.rs|lazyvalue\/|value\/node.rs|value\/array.rs|value\/object.rs|index.rs|value\/from.rs|partial_eq.rs|shared.rs|tls_buffer.rs|TOTAL/' "$OUT/report-all.txt" | cut -c1-200
