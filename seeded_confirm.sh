#!/bin/bash
# usage: seeded_confirm.sh <tag> [demo run command...]
# Confirms a seeded change in a scratch worktree of /repo: it applies, the existing tests pass with it,
# the demonstration fails with it and passes without it. Writes /tmp/seeded-out/<tag>/confirm.log
set -u
TAG="$1"; shift
DEMO_CMD="${*:-cargo run --release --offline}"
OUT=/tmp/seeded-out/$TAG
W=/tmp/vw-$TAG
D=/tmp/vd-$TAG
LOG=$OUT/confirm.log
: > $LOG
git -C /repo worktree remove --force $W 2>/dev/null; rm -rf $W $D
git -C /repo worktree add -q --detach $W HEAD || exit 2
cd $W
if ! git apply $OUT/patch.diff 2>>$LOG; then echo "APPLY: FAILED" | tee -a $LOG; git -C /repo worktree remove --force $W; exit 1; fi
echo "APPLY: ok ($(git diff --stat | tail -1))" | tee -a $LOG
cargo test --workspace --no-fail-fast --offline > $OUT/test-with-change.log 2>&1
grep -E "^test result" $OUT/test-with-change.log | tee -a $LOG
if grep -qE "^test result: FAILED|error: test failed|error\[" $OUT/test-with-change.log; then echo "TESTS-WITH-CHANGE: FAILED" | tee -a $LOG; else echo "TESTS-WITH-CHANGE: pass" | tee -a $LOG; fi
cp -r $OUT/demo $D
sed -i "s#/tmp/wt-$TAG#$W#g" $D/Cargo.toml
cp $W/Cargo.lock $D/Cargo.lock 2>/dev/null
( cd $D && eval "$DEMO_CMD" ) > $OUT/demo-with-change.log 2>&1; rc1=$?
echo "DEMO-WITH-CHANGE: exit $rc1  ($(grep -v '^warning\|^ *|\|^ *=\|^$\|-->' $OUT/demo-with-change.log | tail -2 | tr '\n' ' ' | cut -c1-200))" | tee -a $LOG
git -C $W checkout HEAD -- .
( cd $D && eval "$DEMO_CMD" ) > $OUT/demo-without-change.log 2>&1; rc2=$?
echo "DEMO-WITHOUT-CHANGE: exit $rc2  ($(grep -v '^warning\|^ *|\|^ *=\|^$\|-->' $OUT/demo-without-change.log | tail -2 | tr '\n' ' ' | cut -c1-200))" | tee -a $LOG
git -C /repo worktree remove --force $W; rm -rf $D $W
if [ $rc1 -ne 0 ] && [ $rc2 -eq 0 ]; then echo "CONFIRMED $TAG" | tee -a $LOG; exit 0; else echo "NOT-CONFIRMED $TAG" | tee -a $LOG; exit 1; fi
