//! Supervisor: starts worker processes for both build configurations, merges their results,
//! turns crashes into violations, minimises, verifies the replay in a fresh process, applies
//! the known-findings file and writes the evidence file.

use std::collections::{BTreeMap, HashSet};
use std::io::Read;
use std::process::{Command, Stdio};
use std::time::Instant;

use serde::{Deserialize, Serialize};
use serde_json::json;

use crate::runner::{self, ExecClient, FoundViolation, ReplayFile, Violation, WorkerResult};

pub const DEFAULT_SEED: u64 = 20260917;

pub struct SimPlan {
    pub sim: &'static str,
    pub quick_runs: u64,    // per configuration
    pub thorough_runs: u64, // per configuration
}

pub struct PropPlan {
    pub prop: &'static str,
    pub level: &'static str,
    pub sims: &'static [SimPlan],
    pub rule: &'static str,
    pub assumptions: &'static [&'static str],
    pub real_vs_stub: &'static str,
    /// counters that a run of this check is expected to move; one stuck at zero is a reach gap
    pub probes: &'static [&'static str],
}

pub static PLANS: &[PropPlan] = &[PropPlan {
    prop: "C05",
    level: "fault_enumeration",
    sims: &[SimPlan { sim: "io", quick_runs: 2_500_000, thorough_runs: 40_000 }],
    rule: "each run draws a typed value tree (all serde data-model entry points: every integer width, f32/f64 incl. non-finite, char, strings placed 0..40 bytes before a PROT_NONE page, bytes, options, unit/newtype/tuple/struct variants, seqs/maps with and without length hints, every map-key kind incl. the ones that must be rejected, collect_str, embedded Value/RawNumber/LazyValue/OwnedLazyValue, a Serialize impl that fails), compact or pretty, a writer stack and a fault plan (permanent error / Ok(0) after n bytes, error at call c, reserve_with / flush_len error, plus transient short writes and EINTR). One run in six sends a second value through the same writer (two calls, or one reused Serializer): the output must be the two renderings back to back and a fault may strike in either. Quick: one drawn fault point per run. Thorough: for every base run with a fallible sink, EVERY byte offset 0..=len and every call index is enumerated for every fault kind (exhaustive per value, not globally; for outputs longer than 1.5 KB - the rare page-spanning strings - the first and last 400 offsets and 700 evenly spread ones). Non-trivial = an injected fault fired; distinct = distinct hash of (value, mode, stack, plan, outcome)",
    assumptions: &[
        "float tokens are compared by value (the spelling of a float is not specified by the property): the token must match the JSON number grammar and parse back to the same bits",
        "objects built by mutation (hash-ordered) are not embedded; parsed Values keep document order",
        "std io::BufWriter, bytes::BytesMut, itoa and ryu are trusted; the reference escaper / re-indenter is the oracle and is self-tested at start-up",
        "bytes still inside an io::BufWriter when to_writer returns are flushed by the harness; a fault hit only by that flush is outside the call",
    ],
    real_vs_stub: "real: sonic-rs serializer, formatters, SIMD escaper, WriteExt impls for Vec/BytesMut/BufferedWriter/io::BufWriter/&mut/Box, Value/LazyValue/OwnedLazyValue/RawNumber Serialize impls; simulated: the sink (FaultySink), a user WriteExt whose reserved window ends at a PROT_NONE page, source strings ending 0..40 bytes before a PROT_NONE page, heap ledger; absent: clock, network",
    probes: &["fault_short_write", "fault_eintr", "fault_permanent_error", "fault_ok0", "fault_reserve_error", "fault_flush_len_error", "fault_never_reached", "fault_free_runs", "faulted_runs", "guard_window_reserves", "guarded_str_used", "guarded_str_near_page_end", "ser_err_expected", "ser_ok", "pretty_runs", "compact_runs", "stack_vec_mut", "stack_box_vec", "stack_bytesmut", "stack_bytesmut_mut", "stack_buffered", "stack_iobuf_vec", "stack_iobuf_buffered", "stack_guard_window", "stack_to_string"],
}, PropPlan {
    prop: "C13",
    level: "exploration",
    sims: &[SimPlan { sim: "lazy", quick_runs: 1_500_000, thorough_runs: 20_000_000 }],
    rule: "each run draws a well-formed document model-first (every JSON type incl. bare literals, escaped and unescaped strings, number- and literal-looking strings), renders it with drawn whitespace/escapes while recording every value's span, obtains lazy handles by drawn routes (get on str/slice/Bytes/FastStr/String, get_unchecked, get_many, array/object iterators, serde borrowed field, from_str::<LazyValue>, from_str::<OwnedLazyValue>, From<LazyValue>, to_lazyvalue, owned struct field, From<bool>/From<()>), then runs a drawn history of 2-24 steps over a pool of handles: full accessor reads, child handles, clone, borrowed-to-owned, Value::try_from, take, as_array_mut/as_object_mut + Vec operations, get_mut / pointer_mut + assign or take, drop; after every step every live handle is re-serialized (to_string, to_vec, Display, embedded in a struct) and compared with its model (raw text verbatim for untouched parts). Non-trivial = at least one mutation happened; distinct = distinct hash of the rendered trace",
    assumptions: &[
        "one run in four generates documents that repeat member names (well-formed per RFC 8259): a lookup by key then means the first member of that name, as the DOM of the raw text answers, and iteration is compared position by position; get_many is not used on such documents (it visits every member of a repeated name, the multi-path API's own semantics); number literals come from the full RFC grammar incl. digit runs longer than 32 bytes",
        "a clone of an owned lazy value whose cache may have been loaded is allowed to serialize either as its raw text or as its one-level parsed form (children verbatim, scalars by value); everything else is compared byte for byte",
        "as_raw_number: a handle that holds its number as raw text (every borrowed lazy value; an owned lazy value that is not a clone of a possibly loaded one) must answer Some(literal); a parsed number may answer None (the DOM only keeps raw numbers on request); on anything that is not a number it must be None",
    ],
    real_vs_stub: "real: sonic-rs parser skip/get paths, LazyValue, OwnedLazyValue, LazyArray/LazyObject, serializer raw-emission path, serde glue; simulated: heap bookkeeping only (single simulated caller); absent: threads (C18 covers them), clock, network, disk",
    probes: &["lazy_handles", "lazy_steps", "lazy_mutations", "lazy_clones", "lazy_conversions", "lazy_route_get", "lazy_route_iter", "lazy_route_serde", "lazy_route_owned_serde", "lazy_route_from_lazy", "lazy_route_to_lazyvalue", "lazy_route_get_many", "lazy_reserialize"],
}, PropPlan {
    prop: "C15",
    level: "exploration",
    sims: &[SimPlan { sim: "dom", quick_runs: 600_000, thorough_runs: 12_000_000 }],
    rule: "each run keeps a pool of up to 6 live (Value, model) pairs seeded from a parsed root (in-place or copying path), macro-/conversion-built values and empty containers, and runs a drawn history of 2-48 steps over the public mutation API: Array (push pop insert remove swap_remove truncate clear resize resize_with retain retain_mut split_off append drain extend_from_within reserve index assignment iter_mut into_iter extend), Object (insert remove remove_entry get contains_key get_key_value get_mut entry or_insert/or_insert_with/or_insert_with_key/or_default/and_modify/key, occupied insert/remove/get_mut/into_mut, vacant insert/key, retain append iter_mut clear reserve Index IndexMut), Value (IndexMut by usize/&str/String/FastStr/PointerNode with insert-on-missing and null promotion, Index reads, get_mut, pointer / pointer_mut incl. the empty path and absent paths, take, clone of root or subtree, assignment of one member's clone into another, into_array/into_object, equality, to_string), including operations the reference rejects (out of range, wrong kind), which must fail and change nothing. After every step the result is compared with the model's and every pool member is dumped through the public read API and compared. Non-trivial = at least one mutation happened; distinct = distinct hash of the rendered trace",
    assumptions: &[
        "documents have no duplicate keys (the reference is a string-keyed map); capacity and member order of promoted objects are never compared",
        "documented panics (index out of range, wrong kind) are the accepted way to reject an operation",
        "every array/object operation is entered either through as_array_mut()/as_object_mut() (which promotes a parsed container first) or through a typed Array/Object handle taken out of its place (no promotion yet); array::IntoIter::{as_slice, as_mut_slice, AsRef, AsMut} are held to vec::IntoIter (the items not yet yielded)",
    ],
    real_vs_stub: "real: sonic-rs DOM (node.rs, array.rs, object.rs, index.rs, from.rs, partial_eq.rs, macros), parser, serializer; simulated: heap bookkeeping only (single simulated caller; threads are C16's business); absent: clock, network, disk",
    probes: &["dom_typed_handle_entries", "dom_steps", "dom_mutations", "dom_rejected_ops", "dom_panics_expected", "dom_clones", "dom_takes", "dom_pool_compares", "dom_parsed_roots", "dom_built_values", "dom_cross_assign"],
}, PropPlan {
    prop: "C16",
    level: "exploration",
    sims: &[SimPlan { sim: "arena", quick_runs: 100_000, thorough_runs: 2_000_000 }],
    rule: "each run draws 1-3 simulated threads (real OS threads, real thread-local node buffer each) and, per thread, 2-40 operations over a bag of live (Value, model) pairs: parse by 10 routes (from_str, from_slice, Deserializer over Bytes/FastStr, value inside a struct, use_rawnumber alone / inside a struct / inside a Vec, element of Vec<Value>, second value of a deserializer), malformed documents through every deserializer now and then, repeated document texts, hand-off (parse, give away untouched, let others run, parse the same text again), three values through one deserializer, streams (open / next / drop before or after their values), clone root / subtree, take a child out, insert a value into another document, mutate, read-and-compare, send to another thread, receive, drop (one drop in five happens while the owning thread unwinds from an injected panic it survives); the scheduler may switch before every arena reference-count operation and between operations; final drops happen in a drawn order and every survivor is re-read after each of them (thorough tier: for single-threaded runs ending with 2..=5 sharers every drop order is enumerated). Non-trivial = a context switch, cross-thread send, promotion or mutation happened; distinct = distinct hash of the rendered trace",
    assumptions: &[
        "std::sync::Arc and bumpalo are trusted; the baton of the native engine serialises execution, so data races are out of its reach: they are the business of the Miri engine of this check (free-running threads, Miri's race detector)",
        "native engine: memory errors are observed through the simulated heap: ledger (double/invalid/wrong-layout free), 0xDE poison + quarantine (use after free reads poison, write after free detected), tail canaries on every block, leak check, the live-arena counter fed by hook events; one run in three uses the heap's reuse mode (freed blocks of the same size are handed out again, randomised) so that address-reuse (ABA) defects can show",
        "documents are small (<= 20 nodes) except the rare 400 KB document that drives the node buffer's heap fallback",
    ],
    real_vs_stub: "real: sonic-rs parser, DOM, arena ref-counting, thread-local node buffer, serde glue, std Arc, bumpalo; simulated: thread scheduling (baton over real OS threads), mailboxes between threads, heap bookkeeping; absent: clock, network, disk",
    probes: &["context_switches", "heap_reuse_runs", "heap_blocks_reused", "arena_handoffs", "value_dropped_unwinding", "arena_created", "arena_dropped", "arena_freed_on_foreign_thread", "tls_buffer_reused", "tls_heap_fallback", "value_sent_to_thread", "value_dropped_foreign", "to_mut_promotion", "cross_arena_insert", "stream_values", "deser_dropped_before_values", "dom_rejected_ops", "dom_takes", "dom_clones"],
}, PropPlan {
    prop: "C18",
    level: "exploration",
    sims: &[SimPlan { sim: "cache", quick_runs: 250_000, thorough_runs: 3_000_000 }],
    rule: "each run draws (from one seed) a scenario: a shared LazyValue (escaped string; routes get/serde/iterator) or OwnedLazyValue (document; routes serde/From<LazyValue>/to_lazyvalue), 2-3 thread programs of 1-4 calls, the interleaving before every atomic operation of the cache field and behind every compare-exchange, and spurious weak-CAS failures; non-trivial = at least one context switch or injected failure happened; distinct = distinct hash of the rendered trace (scenario, programs, switches, faults, race outcomes)",
    assumptions: &[
        "the baton scheduler serialises threads, so weak-memory effects (missing acquire/release) are invisible to this engine; they are covered by the Miri engine of the same check",
        "std::sync::Arc, the system allocator and faststr are trusted",
        "documents are well-formed and small (<= 40 byte strings, <= 10 nodes)",
    ],
    real_vs_stub: "real: all of sonic-rs (parser, lazy values, serializer), sonic-number, sonic-simd, std Arc/String; simulated: thread scheduling (baton over real OS threads), outcome of compare_exchange_weak (shim, cfg sonic_rs_verif), heap bookkeeping (ledger over System allocator); absent: clock, network, disk (the library has none)",
    probes: &["context_switches", "post_cas_yields", "fault_spurious_cas", "cas_lost_real_race", "cas_won", "load_hit_published", "lazy_clones", "lazy_cache_scen", "owned_cache_scen"],
}];

fn arg(args: &[String], name: &str) -> Option<String> {
    args.iter().position(|a| a == name).and_then(|i| args.get(i + 1)).cloned()
}

#[derive(Debug, Clone, Serialize, Deserialize)]
pub struct KnownFinding {
    pub property: String,
    /// "known" (suppresses, prints KNOWN-FINDING) or "fixed" (suppresses nothing)
    pub status: String,
    pub id: String,
    #[serde(default)]
    pub class_prefix: String,
    #[serde(default)]
    pub detail_contains: String,
    pub what: String,
    #[serde(default)]
    pub commit: String,
}

#[derive(Debug, Clone, Serialize, Deserialize, Default)]
pub struct KnownFindings {
    pub findings: Vec<KnownFinding>,
}

struct Group {
    sim: String,
    config: String,
    exe: String,
    results: Vec<WorkerResult>,
    crashes: Vec<(i64, String)>, // run, signal
    harness_errors: Vec<String>,
}

fn spawn_workers(exe: &str, config: &str, sim: &str, seed: u64, total: u64, nworkers: u64, work: &str, max_secs: f64, enumerate: bool) -> Group {
    let per = (total + nworkers - 1) / nworkers;
    let mut children = Vec::new();
    for w in 0..nworkers {
        let from = w * per;
        if from >= total {
            break;
        }
        let count = per.min(total - from);
        let out = format!("{}/{}-{}-{}.json", work, sim, config, w);
        let _ = std::fs::remove_file(&out);
        let c = Command::new(exe)
            .args(["worker", "--sim", sim, "--seed", &seed.to_string(), "--from", &from.to_string(), "--count", &count.to_string(), "--out", &out, "--max-secs", &max_secs.to_string()])
            .args(if enumerate { vec!["--enumerate"] } else { vec![] })
            .stdin(Stdio::null())
            .stdout(Stdio::piped())
            .stderr(Stdio::piped())
            .spawn();
        match c {
            Ok(c) => children.push((c, out)),
            Err(e) => {
                return Group { sim: sim.into(), config: config.into(), exe: exe.into(), results: vec![], crashes: vec![], harness_errors: vec![format!("cannot start {}: {}", exe, e)] };
            }
        }
    }
    let mut g = Group { sim: sim.into(), config: config.into(), exe: exe.into(), results: vec![], crashes: vec![], harness_errors: vec![] };
    for (mut c, out) in children {
        let mut so = String::new();
        let mut se = String::new();
        if let Some(mut o) = c.stdout.take() {
            let _ = o.read_to_string(&mut so);
        }
        if let Some(mut e) = c.stderr.take() {
            let _ = e.read_to_string(&mut se);
        }
        let st = c.wait();
        let code = st.as_ref().ok().and_then(|s| s.code());
        let mut crashed = false;
        for line in so.lines() {
            if let Some(rest) = line.strip_prefix("CRASH run=") {
                let mut it = rest.split_whitespace();
                let run: i64 = it.next().and_then(|x| x.parse().ok()).unwrap_or(-1);
                let sig = it.next().and_then(|x| x.strip_prefix("sig=")).unwrap_or("?").to_string();
                g.crashes.push((run, sig));
                crashed = true;
            }
        }
        if crashed {
            continue;
        }
        match code {
            Some(0) => match std::fs::read(&out).ok().and_then(|b| serde_json::from_str::<WorkerResult>(&String::from_utf8_lossy(&b)).ok()) {
                Some(r) => g.results.push(r),
                None => g.harness_errors.push(format!("worker result {} unreadable", out)),
            },
            other => {
                let sig = st.ok().and_then(|s| std::os::unix::process::ExitStatusExt::signal(&s));
                g.harness_errors.push(format!("worker for {} ended abnormally (code {:?}, signal {:?}) without a CRASH line; stderr: {}", out, other, sig, se.lines().last().unwrap_or("")));
            }
        }
    }
    g
}

fn choices_of_seeded_run(exe: &str, sim: &str, seed: u64, run: i64, work: &str) -> Vec<u32> {
    let f = format!("{}/crash-{}-{}.choices", work, sim, run);
    let _ = std::fs::remove_file(&f);
    let _ = Command::new(exe)
        .args(["one", "--sim", sim, "--seed", &seed.to_string(), "--run", &run.to_string(), "--choices-out", &f])
        .stdin(Stdio::null())
        .stdout(Stdio::null())
        .stderr(Stdio::null())
        .status();
    let txt = std::fs::read_to_string(&f).unwrap_or_default();
    let last = txt.rsplit('#').next().unwrap_or("");
    last.split_whitespace().filter_map(|x| x.parse().ok()).collect()
}

pub struct MiriOutcome {
    pub seeds: u64,
    pub first_seed: u64,
    pub scenarios_ok: u64,
    pub wall_s: f64,
    pub failing_seed: Option<u64>,
    pub error_excerpt: Vec<String>,
    pub harness_error: Option<String>,
}

pub fn miri_cmd(verif: &str, miriflags: &str, count: u64, sim: &str) -> Command {
    let mut c = Command::new("cargo");
    c.current_dir(format!("{}/sim", verif))
        .env("MIRIFLAGS", miriflags)
        .env("RUSTFLAGS", "--cfg sonic_rs_verif")
        .env("CARGO_NET_OFFLINE", "true")
        .args(["+nightly", "miri", "run", "--offline", "--target-dir", "target-miri", "--", "miri-batch", "--sim", sim, "--count", &count.to_string()])
        .stdin(Stdio::null());
    c
}

pub const MIRI_BASE_FLAGS: &str = "-Zmiri-disable-stacked-borrows";

/// Second engine: the same scenario shapes under Miri, many seeds (run in parallel by Miri).
/// The Miri engine: the seed range is cut into small chunks that run as separate interpreter processes, up
/// to 16 at a time (one process with `-Zmiri-many-seeds` over many seeds does not scale: 32 seeds took
/// 207 s in one process and 30 s in sixteen). Stops handing out chunks after the first failure.
fn miri_engine(verif: &str, sim: &str, first_seed: u64, seeds: u64, count: u64, max_secs: u64) -> MiriOutcome {
    let t0 = Instant::now();
    let chunk = if seeds <= 32 { 2 } else { 4 };
    let chunks: Vec<(u64, u64)> = (0..seeds).step_by(chunk as usize).map(|o| (first_seed + o, chunk.min(seeds - o))).collect();
    let next = std::sync::atomic::AtomicUsize::new(1);
    let failed = std::sync::atomic::AtomicBool::new(false);
    let results: std::sync::Mutex<Vec<MiriOutcome>> = std::sync::Mutex::new(Vec::new());
    // the first chunk runs alone: on a fresh checkout it is the one that builds the interpreter's sysroot and
    // compiles the simulator for it, which concurrent cargo invocations should not race for
    if let Some(c0) = chunks.first() {
        let o = miri_engine_one(verif, sim, c0.0, c0.1, count, max_secs);
        if o.harness_error.is_some() || !o.error_excerpt.is_empty() {
            failed.store(true, std::sync::atomic::Ordering::SeqCst);
        }
        results.lock().unwrap_or_else(|e| e.into_inner()).push(o);
    }
    std::thread::scope(|sc| {
        for _ in 0..16.min(chunks.len()) {
            sc.spawn(|| loop {
                let k = next.fetch_add(1, std::sync::atomic::Ordering::SeqCst);
                if k >= chunks.len() || failed.load(std::sync::atomic::Ordering::SeqCst) {
                    return;
                }
                let left = max_secs.saturating_sub(t0.elapsed().as_secs()).max(1);
                let o = miri_engine_one(verif, sim, chunks[k].0, chunks[k].1, count, left);
                if o.harness_error.is_some() || !o.error_excerpt.is_empty() {
                    failed.store(true, std::sync::atomic::Ordering::SeqCst);
                }
                results.lock().unwrap_or_else(|e| e.into_inner()).push(o);
            });
        }
    });
    let mut all = results.into_inner().unwrap_or_else(|e| e.into_inner());
    all.sort_by_key(|o| o.first_seed);
    let mut o = MiriOutcome { seeds, first_seed, scenarios_ok: all.iter().map(|x| x.scenarios_ok).sum(), wall_s: 0.0, failing_seed: None, error_excerpt: vec![], harness_error: None };
    if let Some(bad) = all.iter().find(|x| !x.error_excerpt.is_empty()) {
        o.failing_seed = bad.failing_seed.or(Some(bad.first_seed));
        o.error_excerpt = bad.error_excerpt.clone();
    } else if let Some(bad) = all.iter().find(|x| x.harness_error.is_some()) {
        o.harness_error = bad.harness_error.clone();
    }
    o.wall_s = t0.elapsed().as_secs_f64();
    o
}

fn miri_engine_one(verif: &str, sim: &str, first_seed: u64, seeds: u64, count: u64, max_secs: u64) -> MiriOutcome {
    let t0 = Instant::now();
    let flags = format!("{} -Zmiri-many-seeds={}..{}", MIRI_BASE_FLAGS, first_seed, first_seed + seeds);
    // watchdog: the interpreter must not be able to hang the check
    let out = (|| -> std::io::Result<std::process::Output> {
        let mut cmd = miri_cmd(verif, &flags, count, sim);
        cmd.stdout(Stdio::piped()).stderr(Stdio::piped());
        unsafe {
            use std::os::unix::process::CommandExt;
            cmd.pre_exec(|| {
                libc::setsid();
                Ok(())
            });
        }
        let child = cmd.spawn()?;
        let pid = child.id() as i32;
        let done = std::sync::Arc::new(std::sync::atomic::AtomicBool::new(false));
        let d2 = done.clone();
        std::thread::spawn(move || {
            let t = Instant::now();
            while t.elapsed().as_secs() < max_secs {
                if d2.load(std::sync::atomic::Ordering::SeqCst) {
                    return;
                }
                std::thread::sleep(std::time::Duration::from_millis(500));
            }
            unsafe { libc::kill(-pid, libc::SIGKILL) };
        });
        let out = child.wait_with_output();
        done.store(true, std::sync::atomic::Ordering::SeqCst);
        out
    })();
    let mut o = MiriOutcome { seeds, first_seed, scenarios_ok: 0, wall_s: 0.0, failing_seed: None, error_excerpt: vec![], harness_error: None };
    match out {
        Err(e) => o.harness_error = Some(format!("cannot run cargo miri: {}", e)),
        Ok(out) => {
            let so = String::from_utf8_lossy(&out.stdout).to_string();
            let se = String::from_utf8_lossy(&out.stderr).to_string();
            o.scenarios_ok = so.lines().filter(|l| l.starts_with("MIRI-OK")).count() as u64;
            let all = format!("{}\n{}", so, se);
            let failed = !out.status.success();
            if failed && t0.elapsed().as_secs() >= max_secs {
                o.harness_error = Some(format!("the Miri engine was stopped after {} s ({} scenario executions had finished cleanly)", max_secs, o.scenarios_ok));
            } else if failed {
                for l in all.lines() {
                    let low = l.to_lowercase();
                    if let Some(i) = low.find("failing seed:") {
                        o.failing_seed = low[i + 13..].trim().split(|c: char| !c.is_ascii_digit()).next().and_then(|x| x.parse().ok());
                    }
                }
                let lines: Vec<&str> = all.lines().collect();
                if let Some(i) = lines.iter().position(|l| l.starts_with("error: Undefined Behavior") || l.starts_with("MIRI-VIOLATION") || l.starts_with("error: memory leaked") || l.starts_with("error: the evaluated program")) {
                    o.error_excerpt = lines[i..(i + 40).min(lines.len())].iter().map(|s| s.to_string()).collect();
                }
                if o.error_excerpt.is_empty() {
                    // compile error or tool failure: not a property violation
                    let tail: Vec<String> = lines.iter().rev().take(15).rev().map(|s| s.to_string()).collect();
                    o.harness_error = Some(format!("cargo miri failed without a Miri diagnostic: {}", tail.join(" | ")));
                }
            }
        }
    }
    o.wall_s = t0.elapsed().as_secs_f64();
    o
}

struct Reported {
    line: String,
    is_violation: bool,
}

pub fn main(args: &[String]) -> i32 {
    let t0 = Instant::now();
    let prop = arg(args, "--prop").expect("--prop");
    let tier = arg(args, "--tier").or_else(|| std::env::var("VERIF_TIER").ok()).unwrap_or_else(|| "quick".into());
    let tier = if tier == "thorough" { "thorough" } else { "quick" };
    let seed: u64 = arg(args, "--seed")
        .or_else(|| std::env::var("VERIF_SEED").ok())
        .and_then(|s| s.trim().parse().ok())
        .unwrap_or(DEFAULT_SEED);
    let verif = arg(args, "--verif-dir").unwrap_or_else(|| "/verif".into());
    let other = arg(args, "--other-bin");
    let nworkers: u64 = arg(args, "--workers").and_then(|s| s.parse().ok()).unwrap_or(8);
    let scale: f64 = arg(args, "--scale").and_then(|s| s.parse().ok()).unwrap_or(1.0);
    let Some(plan) = PLANS.iter().find(|p| p.prop == prop) else {
        eprintln!("HARNESS-ERROR no plan for property {}", prop);
        return 2;
    };
    if let Err(e) = crate::refjson::self_test() {
        eprintln!("HARNESS-ERROR {}", e);
        return 2;
    }
    let me = std::env::current_exe().unwrap().to_string_lossy().to_string();
    let work = format!("{}/work/{}", verif, prop);
    let _ = std::fs::remove_dir_all(&work);
    std::fs::create_dir_all(&work).expect("work dir");
    std::fs::create_dir_all(format!("{}/replays", verif)).ok();
    std::fs::create_dir_all(format!("{}/evidence", verif)).ok();
    let mut bins: Vec<(String, String)> = vec![(crate::config_name().to_string(), me.clone())];
    if let Some(o) = &other {
        let name = if crate::config_name() == "native" { "baseline" } else { "native" };
        bins.push((name.to_string(), o.clone()));
    }
    // third configuration: the native build with debug assertions and overflow checks on, a quarter of the budget
    if let Some(t) = arg(args, "--third-bin") {
        bins.push(("native-dbg".to_string(), t));
    }
    println!("dsim supervise property={} tier={} seed={} configs={:?}", prop, tier, seed, bins.iter().map(|b| b.0.clone()).collect::<Vec<_>>());

    let mut groups: Vec<Group> = Vec::new();
    for sp in plan.sims {
        let runs = ((if tier == "thorough" { sp.thorough_runs } else { sp.quick_runs }) as f64 * scale).max(16.0) as u64;
        let max_secs = if tier == "thorough" { 3000.0 } else { 240.0 };
        let enumerate = tier == "thorough" && crate::find_sim(sp.sim).map(|s| s.enumerate.is_some()).unwrap_or(false);
        // both configurations at the same time: 2 x nworkers processes
        let handles: Vec<_> = bins
            .iter()
            .map(|(cfg, exe)| {
                let (cfg, exe, sim, work) = (cfg.clone(), exe.clone(), sp.sim.to_string(), work.clone());
                let (runs, nworkers) = if cfg.ends_with("-dbg") { ((runs / 4).max(16), (nworkers / 2).max(1)) } else { (runs, nworkers) };
                std::thread::spawn(move || spawn_workers(&exe, &cfg, &sim, seed, runs, nworkers, &work, max_secs, enumerate))
            })
            .collect();
        for h in handles {
            groups.push(h.join().expect("supervisor thread"));
        }
    }

    // ---- merge
    let mut evaluations = 0u64;
    let mut nontrivial_runs = 0u64;
    let mut choices_drawn = 0u64;
    let mut counters: BTreeMap<String, u64> = BTreeMap::new();
    let mut hashes: HashSet<u64> = HashSet::new();
    let mut sched_hashes: HashSet<u64> = HashSet::new();
    let mut samples = Vec::new();
    let mut per_group = Vec::new();
    let mut harness_errors: Vec<String> = Vec::new();
    let mut found: Vec<(usize, FoundViolation)> = Vec::new(); // group index, violation
    let mut worker_wall = 0f64;
    let mut enumerated_bases = 0u64;
    let mut enumerated_variants = 0u64;
    for (gi, g) in groups.iter().enumerate() {
        let mut gdone = 0;
        for r in &g.results {
            evaluations += r.done;
            gdone += r.done;
            nontrivial_runs += r.nontrivial_runs;
            choices_drawn += r.choices_drawn;
            worker_wall += r.wall_s;
            enumerated_bases += r.enumerated_bases;
            enumerated_variants += r.enumerated_variants;
            for (k, v) in &r.counters {
                *counters.entry(k.clone()).or_default() += v;
            }
            runner::read_hashes(&r.hashes_file, &mut hashes);
            runner::read_hashes(&r.sched_hashes_file, &mut sched_hashes);
            for s in &r.samples {
                if samples.len() < 4 {
                    samples.push(json!({"sim": g.sim, "config": s.config, "run": s.run, "trace": s.lines}));
                }
            }
            for v in &r.violations {
                found.push((gi, v.clone()));
            }
        }
        for (run, sig) in &g.crashes {
            found.push((gi, FoundViolation { run: *run, class: format!("crash/signal-{}", sig), detail: format!("worker process died with signal {} during run {}", sig, run), choices: vec![] }));
        }
        harness_errors.extend(g.harness_errors.iter().cloned());
        per_group.push(json!({"sim": g.sim, "config": g.config, "runs": gdone, "crashes": g.crashes.len()}));
    }

    // ---- violations: one per class, minimised, replay verified
    let known: KnownFindings = std::fs::read_to_string(format!("{}/known_findings.json", verif))
        .ok()
        .and_then(|s| serde_json::from_str(&s).ok())
        .unwrap_or_default();
    let mut reported: Vec<Reported> = Vec::new();
    let mut classes_done: HashSet<String> = HashSet::new();
    found.sort_by_key(|(gi, v)| (v.class.clone(), v.choices.len(), *gi, v.run));
    let mut violations_total = 0;
    for (gi, fv) in &found {
        if fv.class.starts_with("harness/") {
            harness_errors.push(format!("{} in run {}: {}", fv.class, fv.run, fv.detail));
            continue;
        }
        violations_total += 1;
        if !classes_done.insert(fv.class.clone()) || classes_done.len() > 3 {
            continue;
        }
        let g = &groups[*gi];
        let mut choices = fv.choices.clone();
        if choices.is_empty() {
            choices = choices_of_seeded_run(&g.exe, &g.sim, seed, fv.run, &work);
        }
        let mut ex = ExecClient::new(&g.exe, &g.sim);
        // confirm first
        let (c0, _) = ex.run(&choices);
        let class = fv.class.replace(' ', "_");
        // a memory-corruption failure may show a different symptom in another process (anything goes once
        // the heap is damaged): any violation on re-execution confirms it
        let mem_family = runner::same_class("crash/", &class);
        if !c0.as_deref().map(|c| runner::same_class(c, &class) || mem_family).unwrap_or(false) {
            harness_errors.push(format!("violation {} of run {} ({}/{}) did not recur when its choices were re-executed (got {:?}); determinism problem in the harness", fv.class, fv.run, g.sim, g.config, c0));
            continue;
        }
        let original_len = choices.len();
        let min = runner::minimise(&mut ex, &choices, &class, 3000, if tier == "thorough" { 120.0 } else { 45.0 });
        drop(ex);
        let path = format!("{}/replays/{}-{}-{}-{}-{}.json", verif, prop, g.sim, g.config, seed, fv.run);
        let mut rf = ReplayFile {
            property: prop.clone(),
            sim: g.sim.clone(),
            config: g.config.clone(),
            seed,
            run: fv.run,
            engine: "dsim".into(),
            choices: min,
            violation: Violation { class: class.clone(), detail: fv.detail.clone() },
            rendered: vec![],
            minimised: true,
            original_len,
            miri_seed: None,
            miri_count: None,
        };
        if let Err(e) = rf.save(&path) {
            harness_errors.push(e);
            continue;
        }
        // replay in a fresh process: must reproduce; keep its rendering and detail
        let out = Command::new(&g.exe).args(["replay", &path]).stdin(Stdio::null()).output();
        let (ok, text) = match out {
            Ok(o) => {
                let text = String::from_utf8_lossy(&o.stdout).to_string();
                let crashed = text.contains("CRASH run=") || o.status.code().is_none();
                let reproduced = text.contains("REPRODUCED ") || (crashed && mem_family) || (mem_family && text.contains("DIFFERENT-VIOLATION"));
                (reproduced, text)
            }
            Err(e) => (false, e.to_string()),
        };
        if !ok {
            harness_errors.push(format!("replay of {} did not reproduce class {}", path, class));
            continue;
        }
        rf.rendered = text.lines().filter(|l| !l.starts_with("REPRODUCED")).map(|s| s.to_string()).collect();
        if let Some(d) = text.lines().find_map(|l| l.strip_prefix("REPLAY class=")) {
            if let Some((_, det)) = d.split_once(" detail=") {
                rf.violation.detail = det.to_string();
            }
        }
        let _ = rf.save(&path);
        let kf = known.findings.iter().find(|k| {
            k.status == "known" && k.property == prop && (k.class_prefix.is_empty() || class.starts_with(&k.class_prefix)) && (k.detail_contains.is_empty() || rf.violation.detail.contains(&k.detail_contains) || rf.rendered.iter().any(|l| l.contains(&k.detail_contains)))
        });
        match kf {
            Some(k) => reported.push(Reported { line: format!("KNOWN-FINDING: property={} {} [{}] replay={}", prop, k.what, k.id, path), is_violation: false }),
            None => reported.push(Reported { line: format!("VIOLATION property={} replay={}\n  class={} sim={} config={} run={} choices={} ({} non-zero; from {})\n  {}", prop, path, class, g.sim, g.config, fv.run, rf.choices.len(), rf.choices.iter().filter(|c| **c != 0).count(), original_len, rf.violation.detail), is_violation: true }),
        }
    }

    // ---- second engine (C18): Miri, many seeds
    let mut miri_json = serde_json::Value::Null;
    // (sim, quick seeds, quick scenarios per seed, thorough seeds, thorough scenarios per seed)
    let miri_plan: Option<(&str, u64, u64, u64, u64)> = match prop.as_str() {
        "C18" => Some(("cache", 64, 6, 1024, 8)),
        "C13" => Some(("lazy", 16, 3, 192, 6)),
        "C05" => Some(("io", 16, 4, 96, 8)),
        "C16" => Some(("arena", 24, 2, 256, 3)),
        "C15" => Some(("dom", 16, 1, 96, 3)),
        _ => None,
    };
    if let (Some((msim, qs, qc, ts, tc)), false) = (miri_plan, args.iter().any(|a| a == "--no-miri")) {
        let seeds: u64 = arg(args, "--miri-seeds").and_then(|s| s.parse().ok()).unwrap_or(if tier == "thorough" { ts } else { qs });
        let count: u64 = if tier == "thorough" { tc } else { qc };
        let first = (seed % 4096) * 4096;
        let m = if seeds == 0 {
            MiriOutcome { seeds: 0, first_seed: first, scenarios_ok: 0, wall_s: 0.0, failing_seed: None, error_excerpt: vec![], harness_error: None }
        } else {
            miri_engine(&verif, msim, first, seeds, count, if tier == "thorough" { 14400 } else { 2400 })
        };
        println!("miri engine: seeds {}..{} scenarios_ok={} wall={:.1}s failing_seed={:?}", first, first + seeds, m.scenarios_ok, m.wall_s, m.failing_seed);
        if let Some(e) = &m.harness_error {
            harness_errors.push(e.clone());
        } else if !m.error_excerpt.is_empty() {
            let fs = m.failing_seed.unwrap_or(first);
            let path = format!("{}/replays/{}-miri-{}.json", verif, prop, fs);
            let class = if m.error_excerpt[0].contains("Data race") {
                "miri/data-race".to_string()
            } else if m.error_excerpt[0].starts_with("MIRI-VIOLATION") {
                "miri/oracle-mismatch".to_string()
            } else if m.error_excerpt[0].contains("leaked") {
                "miri/leak".to_string()
            } else {
                "miri/undefined-behaviour".to_string()
            };
            let rf = ReplayFile {
                property: prop.clone(),
                sim: msim.into(),
                config: "miri".into(),
                seed,
                run: fs as i64,
                engine: "miri".into(),
                choices: vec![],
                violation: Violation { class: class.clone(), detail: m.error_excerpt[0].clone() },
                rendered: m.error_excerpt.clone(),
                minimised: false,
                original_len: 0,
                miri_seed: m.failing_seed,
                miri_count: Some(count),
            };
            let _ = rf.save(&path);
            let kf = known.findings.iter().find(|k| k.status == "known" && k.property == prop && (k.class_prefix.is_empty() || class.starts_with(&k.class_prefix)) && (k.detail_contains.is_empty() || m.error_excerpt.iter().any(|l| l.contains(&k.detail_contains))));
            match kf {
                Some(k) => reported.push(Reported { line: format!("KNOWN-FINDING: property={} {} [{}] replay={}", prop, k.what, k.id, path), is_violation: false }),
                None => reported.push(Reported { line: format!("VIOLATION property={} replay={}\n  class={} engine=miri miri_seed={:?}\n  {}", prop, path, class, m.failing_seed, m.error_excerpt.iter().take(12).cloned().collect::<Vec<_>>().join("\n  ")), is_violation: true }),
            }
        }
        miri_json = json!({
            "engine": "Miri (cargo +nightly miri run), -Zmiri-many-seeds; each seed decides preemption, weak-memory load results and spurious compare_exchange_weak failures; no hooks, no baton, no simulated heap; Miri's own data-race, invalid-reference, layout and leak checks are the oracle, plus the model comparison of every value read",
            "flags": MIRI_BASE_FLAGS,
            "seeds": m.seeds, "first_seed": m.first_seed, "scenarios_per_seed": count,
            "scenario_executions_ok": m.scenarios_ok, "wall_s": m.wall_s,
            "failing_seed": m.failing_seed,
        });
    }

    // ---- evidence
    let wall = t0.elapsed().as_secs_f64();
    let fault_kinds: BTreeMap<String, u64> = counters.iter().filter(|(k, _)| k.starts_with("fault_")).map(|(k, v)| (k.clone(), *v)).collect();
    let zero_probes: Vec<String> = plan.probes.iter().filter(|p| counters.get(**p).copied().unwrap_or(0) == 0).map(|p| p.to_string()).collect();
    let n_viol = reported.iter().filter(|r| r.is_violation).count();
    let evidence = json!({
        "property_id": prop,
        "tier": tier,
        "seed": seed,
        "level": plan.level,
        "wall_s": wall,
        "violations": n_viol,
        "assumptions": plan.assumptions,
        "coverage": {
            "evaluations": evaluations,
            "distinct_nontrivial": hashes.len(),
            "rule": plan.rule,
            "samples": samples,
            "exhaustive": false,
            "nontrivial_runs": nontrivial_runs,
            "distinct_interleavings": sched_hashes.len(),
            "interleaving_measure": "distinct hashes of the (thread, yield site, switched?) sequence of a run",
            "runs_per_hour": if wall > 0.0 { (evaluations as f64 / wall * 3600.0) as u64 } else { 0 },
            "seeds_per_hour": if wall > 0.0 { (evaluations as f64 / wall * 3600.0) as u64 } else { 0 },
            "simulated_time": {"unit": "scheduler steps (the library has no clock or timers)", "steps": counters.get("sched_steps").copied().unwrap_or(0)},
            "choices_drawn": choices_drawn,
            "fault_kinds_fired": fault_kinds,
            "counters_and_reach_probes": counters.iter().filter(|(_, v)| **v > 0).map(|(k, v)| (k.clone(), *v)).collect::<BTreeMap<_, _>>(),
            "reach_gaps": zero_probes,
            "reach_gap_notes": if prop == "C18" { "fault_spurious_cas can only fire at a compare_exchange_weak; since fix 8403169 the library has none left, so on the repaired tree this probe is 0 by construction (the fault point is still offered: mutants C18-F2 and seeded change C18d re-introduce a weak CAS and it fires there)" } else { "" },
            "per_sim_config": per_group,
            "real_vs_stub": plan.real_vs_stub,
            "worker_cpu_s": worker_wall,
            "fault_enumeration": {"base_runs_enumerated": enumerated_bases, "fault_points_executed": enumerated_variants, "note": if prop == "C16" { "thorough tier only: for every single-threaded base run that ends with 2..=5 live values / streams, EVERY order of dropping them is executed (5 sharers: one base run in four), with all survivors re-read after each drop" } else { "thorough tier only: every byte offset / call index for every fault kind, per base run with a fallible sink" }},
            "violations_seen_before_dedup": violations_total,
            "engine": "dsim (choice-stream driven simulator; baton scheduler over real OS threads; simulated heap)",
            "second_engine_miri": miri_json,
        }
    });
    let epath = format!("{}/evidence/{}.json", verif, prop);
    // a second engine (Miri) may add to the same evidence file afterwards
    if let Err(e) = std::fs::write(&epath, serde_json::to_string_pretty(&evidence).unwrap()) {
        harness_errors.push(format!("cannot write {}: {}", epath, e));
    }
    println!(
        "runs={} nontrivial={} distinct_traces={} distinct_interleavings={} wall={:.1}s",
        evaluations,
        nontrivial_runs,
        hashes.len(),
        sched_hashes.len(),
        wall
    );
    for r in &reported {
        println!("{}", r.line);
    }
    if !harness_errors.is_empty() {
        for e in &harness_errors {
            eprintln!("HARNESS-ERROR {}", e);
        }
        // a confirmed, replayable violation stands on its own: the run is reported as a violation (exit 1);
        // with nothing confirmed, a harness error means the check itself could not do its work (exit 2)
        if n_viol == 0 {
            return 2;
        }
    }
    if n_viol > 0 {
        1
    } else {
        println!("OK property={} held on everything explored ({} runs)", prop, evaluations);
        0
    }
}
