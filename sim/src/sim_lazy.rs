//! C13 — lazy values as faithful views of their source text, under histories of reads,
//! clones, conversions and mutations of owned-lazy containers.
//!
//! Model-first document with known value spans; handles obtained by every route; a drawn
//! history over a pool of handles with a model updated in lock-step. After every step every
//! live handle is re-serialized and compared with what its model says (raw text verbatim for
//! untouched parts).

use std::sync::Arc;

use serde::{Deserialize, Serialize};
use sonic_rs::{FastStr, JsonContainerTrait, JsonValueMutTrait, JsonValueTrait, LazyValue, OwnedLazyValue, PointerTree, Value};

use crate::choice::{chance, draw, pick, range};
use crate::gen::{self, GenCfg, Span, Step, Style};
use crate::oracle;
use crate::refjson::{self, Kind, J};
use crate::runner::{libcall, SimResult, Violation};
use crate::tr;
use crate::trace::{self, C};

/// model of an owned lazy value
#[derive(Clone, Debug)]
enum OM {
    /// serializes as `text` verbatim. `fuzzy`: a clone of a value whose cache may have been
    /// loaded — it may serialize either as the raw text or as its one-level parsed form
    Raw { text: String, j: J, span: Span, fuzzy: bool },
    Arr(Vec<OM>),
    Obj(Vec<(String, OM)>),
}

impl OM {
    fn from_text(text: &str, j: J) -> OM {
        let span = gen::spans_of(text).rebased();
        let t = text[..].trim().to_string();
        OM::Raw { text: t, j, span, fuzzy: false }
    }
    fn scalar(text: &str, j: J) -> OM {
        OM::Raw { text: text.to_string(), j, span: Span { start: 0, end: text.len(), kids: vec![] }, fuzzy: false }
    }
    fn to_j(&self) -> J {
        match self {
            OM::Raw { j, .. } => j.clone(),
            OM::Arr(a) => J::Arr(a.iter().map(|x| x.to_j()).collect()),
            OM::Obj(m) => J::Obj(m.iter().map(|(k, v)| (k.clone(), v.to_j())).collect()),
        }
    }
    fn kind(&self) -> Kind {
        match self {
            OM::Raw { j, .. } => j.kind(),
            OM::Arr(_) => Kind::Arr,
            OM::Obj(_) => Kind::Obj,
        }
    }
    /// one-level parse of a raw container: children keep their raw text
    fn expand(&mut self) {
        if let OM::Raw { text, j, span, fuzzy } = self {
            let fuzzy = *fuzzy; // children of a possibly-converted clone may be converted clones too
            match j {
                J::Arr(a) => {
                    let kids = a
                        .iter()
                        .zip(span.kids.iter())
                        .map(|(cj, cs)| OM::Raw { text: text[cs.start..cs.end].to_string(), j: cj.clone(), span: cs.rebased(), fuzzy })
                        .collect();
                    *self = OM::Arr(kids);
                }
                J::Obj(m) => {
                    let kids = m
                        .iter()
                        .zip(span.kids.iter())
                        .map(|((k, cj), cs)| (k.clone(), OM::Raw { text: text[cs.start..cs.end].to_string(), j: cj.clone(), span: cs.rebased(), fuzzy }))
                        .collect();
                    *self = OM::Obj(kids);
                }
                _ => {}
            }
        }
    }
    fn make_fuzzy(&mut self) {
        match self {
            OM::Raw { fuzzy, .. } => *fuzzy = true,
            OM::Arr(a) => a.iter_mut().for_each(|x| x.make_fuzzy()),
            OM::Obj(m) => m.iter_mut().for_each(|(_, x)| x.make_fuzzy()),
        }
    }
    fn exact_text(&self) -> String {
        match self {
            OM::Raw { text, .. } => text.clone(),
            OM::Arr(a) => format!("[{}]", a.iter().map(|x| x.exact_text()).collect::<Vec<_>>().join(",")),
            OM::Obj(m) => {
                let mut s = String::from("{");
                for (i, (k, v)) in m.iter().enumerate() {
                    if i > 0 {
                        s.push(',');
                    }
                    refjson::write_escaped(&mut s, k);
                    s.push(':');
                    s.push_str(&v.exact_text());
                }
                s.push('}');
                s
            }
        }
    }
    /// mirror of get_mut / pointer_mut: a raw container is parsed one level when stepped into
    /// with a matching kind of index
    fn step_mut(&mut self, st: &Step) -> Option<&mut OM> {
        match (self.kind(), st) {
            (Kind::Arr, Step::Idx(_)) | (Kind::Obj, Step::Key(_)) => self.expand(),
            _ => {}
        }
        match (self, st) {
            (OM::Arr(a), Step::Idx(i)) => a.get_mut(*i),
            (OM::Obj(m), Step::Key(k)) => m.iter_mut().find(|(kk, _)| kk == k).map(|(_, v)| v),
            _ => None,
        }
    }
    fn path_mut(&mut self, path: &[Step]) -> Option<&mut OM> {
        let mut cur = self;
        for st in path {
            cur = cur.step_mut(st)?;
        }
        Some(cur)
    }
}

/// Does `actual` (from position `pos`) render `om`? Untouched parts verbatim; fuzzy parts either
/// verbatim or in their one-level parsed form (scalars then compared by value).
fn fmatch(om: &OM, actual: &str, pos: &mut usize) -> bool {
    fn lit(actual: &str, pos: &mut usize, s: &str) -> bool {
        if actual[*pos..].starts_with(s) {
            *pos += s.len();
            true
        } else {
            false
        }
    }
    match om {
        OM::Raw { text, j, span, fuzzy } => {
            if lit(actual, pos, text) {
                return true;
            }
            if !*fuzzy {
                return false;
            }
            match j {
                J::Arr(_) | J::Obj(_) => {
                    let mut e = om.clone();
                    e.expand();
                    e.make_fuzzy();
                    let _ = span;
                    fmatch(&e, actual, pos)
                }
                _ => match refjson::parse_prefix(&actual[*pos..]) {
                    Ok((got, n)) => {
                        if got.sem_eq(j) {
                            *pos += n;
                            true
                        } else {
                            false
                        }
                    }
                    Err(_) => false,
                },
            }
        }
        OM::Arr(a) => {
            if !lit(actual, pos, "[") {
                return false;
            }
            for (i, x) in a.iter().enumerate() {
                if i > 0 && !lit(actual, pos, ",") {
                    return false;
                }
                if !fmatch(x, actual, pos) {
                    return false;
                }
            }
            lit(actual, pos, "]")
        }
        OM::Obj(m) => {
            if !lit(actual, pos, "{") {
                return false;
            }
            for (i, (k, v)) in m.iter().enumerate() {
                if i > 0 && !lit(actual, pos, ",") {
                    return false;
                }
                let mut ks = String::new();
                refjson::write_escaped(&mut ks, k);
                if !lit(actual, pos, &ks) || !lit(actual, pos, ":") {
                    return false;
                }
                if !fmatch(v, actual, pos) {
                    return false;
                }
            }
            lit(actual, pos, "}")
        }
    }
}

fn check_owned_text(actual: &str, om: &OM, what: &str) -> Result<(), Violation> {
    let mut pos = 0;
    if fmatch(om, actual, &mut pos) && pos == actual.len() {
        return Ok(());
    }
    Err(Violation::new(
        "lazy/serialization-differs",
        format!("{}: to_string gave {:?} but the model says {:?} (untouched parts must be verbatim)", what, oracle::truncate(actual), oracle::truncate(&om.exact_text())),
    ))
}

struct Source {
    text: String,
    bytes: bytes::Bytes,
    fs: FastStr,
}

#[derive(Clone)]
struct LM {
    text: String,
    j: J,
    span: Span,
}

enum H {
    Lazy { v: LazyValue<'static>, _keep: Arc<Source>, m: LM },
    Owned { v: OwnedLazyValue, m: OM },
}

#[derive(Deserialize)]
struct BorrowWrap<'a> {
    #[serde(borrow)]
    f: LazyValue<'a>,
}

#[derive(Deserialize)]
struct OwnedWrap {
    f: OwnedLazyValue,
}

#[derive(Serialize)]
struct Embed<'a, T: Serialize> {
    a: &'a T,
    b: u8,
}

fn perr(route: &str, text: &str, e: sonic_rs::Error) -> Violation {
    Violation::new("mismatch/parse-error", format!("{} failed on well-formed input {:?}: {}", route, oracle::truncate(text), e))
}

unsafe fn stat<'a>(lv: LazyValue<'a>) -> LazyValue<'static> {
    std::mem::transmute::<LazyValue<'a>, LazyValue<'static>>(lv)
}

/// obtain a borrowed lazy handle to the value at `path` by a drawn route
fn obtain_lazy(src: &Arc<Source>, j: &J, span: &Span, path: &[Step]) -> Result<H, Violation> {
    let target_j = gen::at_path(j, path).unwrap().clone();
    let target_sp = gen::span_at(span, j, path).unwrap();
    let m = LM { text: src.text[target_sp.start..target_sp.end].to_string(), j: target_j, span: target_sp.rebased() };
    let ptr = gen::to_pointer(path);
    let route = draw(16);
    trace::bump(C::lazy_handles);
    let text = src.text.as_str();
    let lv: LazyValue<'static> = unsafe {
        match route {
            0 => {
                trace::bump(C::lazy_route_get);
                stat(libcall("get_from_str", || sonic_rs::get_from_str(text, &ptr))?.map_err(|e| perr("get_from_str", text, e))?)
            }
            1 => {
                trace::bump(C::lazy_route_get);
                stat(libcall("get_from_slice", || sonic_rs::get_from_slice(text.as_bytes(), &ptr))?.map_err(|e| perr("get_from_slice", text, e))?)
            }
            2 => {
                trace::bump(C::lazy_route_get);
                stat(libcall("get_from_bytes", || sonic_rs::get_from_bytes(&src.bytes, &ptr))?.map_err(|e| perr("get_from_bytes", text, e))?)
            }
            3 => {
                trace::bump(C::lazy_route_get);
                stat(libcall("get_from_faststr", || sonic_rs::get_from_faststr(&src.fs, &ptr))?.map_err(|e| perr("get_from_faststr", text, e))?)
            }
            4 => {
                trace::bump(C::lazy_route_get);
                stat(libcall("get(&String)", || sonic_rs::get(&src.text, &ptr))?.map_err(|e| perr("get", text, e))?)
            }
            5 => {
                trace::bump(C::lazy_route_get);
                stat(libcall("get_unchecked", || sonic_rs::get_unchecked(text, &ptr))?.map_err(|e| perr("get_unchecked", text, e))?)
            }
            14 => {
                trace::bump(C::lazy_route_get);
                stat(libcall("get_from_str_unchecked", || sonic_rs::get_from_str_unchecked(text, &ptr))?.map_err(|e| perr("get_from_str_unchecked", text, e))?)
            }
            15 => {
                trace::bump(C::lazy_route_get);
                stat(libcall("get_from_slice_unchecked", || sonic_rs::get_from_slice_unchecked(text.as_bytes(), &ptr))?.map_err(|e| perr("get_from_slice_unchecked", text, e))?)
            }
            11 => {
                trace::bump(C::lazy_route_get);
                stat(libcall("get_from_bytes_unchecked", || sonic_rs::get_from_bytes_unchecked(&src.bytes, &ptr))?.map_err(|e| perr("get_from_bytes_unchecked", text, e))?)
            }
            12 => {
                trace::bump(C::lazy_route_get);
                stat(libcall("get_from_faststr_unchecked", || sonic_rs::get_from_faststr_unchecked(&src.fs, &ptr))?.map_err(|e| perr("get_from_faststr_unchecked", text, e))?)
            }
            // (get_many visits *every* member with a repeated name, not only the first, and fails if a later
            // one is not a container: that is the multi-path API's own semantics (C11), so documents with
            // repeated names take another route)
            6 | 13 if !has_dup_keys(j) => {
                trace::bump(C::lazy_route_get_many);
                let mut tree = PointerTree::new();
                tree.add_path(&[] as &[usize]);
                tree.add_path(&ptr);
                // (a PointerTree cannot mix keys and indexes below one node, so the absent-key probe
                // is only added when the target path does not start with an index)
                let probe = !matches!(path.first(), Some(Step::Idx(_))) && matches!(j, J::Obj(m) if !m.is_empty());
                if probe {
                    tree.add_path(&["no such key"]);
                }
                let mut got = libcall("get_many", || if route == 13 { sonic_rs::get_many_unchecked(&src.fs, &tree) } else { sonic_rs::get_many(text, &tree) })?.map_err(|e| perr("get_many", text, e))?;
                if got.len() != if probe { 3 } else { 2 } {
                    return Err(Violation::new("mismatch/get_many", format!("get_many returned {} slots", got.len())));
                }
                if probe && got[2].is_some() && j.get_key("no such key").is_none() {
                    return Err(Violation::new("mismatch/get_many", "get_many found a key that does not exist".to_string()));
                }
                // slot 0 is the whole document (the empty path, a prefix of every other path)
                match &got[0] {
                    Some(root) => {
                        if root.as_raw_str() != text.trim() {
                            return Err(Violation::new("mismatch/get_many", format!("get_many: the slot of the empty path has raw text {:?}, the document is {:?}", oracle::truncate(root.as_raw_str()), oracle::truncate(text.trim()))));
                        }
                    }
                    None => return Err(Violation::new("mismatch/get_many", "get_many: the slot of the empty path is None".to_string())),
                }
                match got.swap_remove(1) {
                    Some(lv) => {
                        let lv = stat(lv);
                        libcall("drop get_many rest", move || drop(got))?;
                        lv
                    }
                    None => return Err(Violation::new("mismatch/get_many", format!("get_many: slot for {} is None", gen::path_str(path)))),
                }
            }
            7 | 8 if !path.is_empty() => {
                // through the parent's iterator
                trace::bump(C::lazy_route_iter);
                let (ppath, last) = path.split_at(path.len() - 1);
                let psp = gen::span_at(span, j, ppath).unwrap();
                let ptext: &str = &text[psp.start..psp.end];
                let pj = gen::at_path(j, ppath).unwrap();
                match (&last[0], pj) {
                    (Step::Idx(i), J::Arr(_)) => {
                        let unchecked = route == 8;
                        let item = libcall("to_array_iter", || if unchecked { sonic_rs::to_array_iter_unchecked(ptext).nth(*i) } else { sonic_rs::to_array_iter(ptext).nth(*i) })?;
                        match item {
                            Some(Ok(lv)) => stat(lv),
                            other => return Err(Violation::new("mismatch/array-iter", format!("to_array_iter item {} of {:?}: {:?}", i, oracle::truncate(ptext), other.map(|r| r.map(|_| ()).map_err(|e| e.to_string())))))
                        }
                    }
                    (Step::Key(k), J::Obj(mm)) => {
                        let pos = mm.iter().position(|(kk, _)| kk == k).unwrap();
                        let unchecked = route == 8;
                        let item = libcall("to_object_iter", || if unchecked { sonic_rs::to_object_iter_unchecked(ptext).nth(pos) } else { sonic_rs::to_object_iter(ptext).nth(pos) })?;
                        match item {
                            Some(Ok((key, lv))) => {
                                if key.as_ref() != k.as_str() {
                                    return Err(Violation::new("mismatch/object-iter-key", format!("to_object_iter member {}: key {:?} but the model says {:?}", pos, key, k)));
                                }
                                stat(lv)
                            }
                            other => return Err(Violation::new("mismatch/object-iter", format!("to_object_iter member {} of {:?}: {:?}", pos, oracle::truncate(ptext), other.map(|r| r.map(|_| ()).map_err(|e| e.to_string())))))
                        }
                    }
                    _ => unreachable!(),
                }
            }
            9 => {
                // serde, borrowed struct field
                trace::bump(C::lazy_route_serde);
                let wrapped = format!("{{\"f\" :{} }}", m.text);
                let w: BorrowWrap = libcall("from_str::<BorrowWrap>", || sonic_rs::from_str::<BorrowWrap>(&wrapped))?.map_err(|e| perr("from_str::<BorrowWrap>", &wrapped, e))?;
                // the field copies what it needs (FastStr), so it may outlive `wrapped`... it does not
                // borrow from it only if the implementation copies; to be safe keep it alive: leak-free
                // alternative is to re-parse from the long-lived source below
                let owned_copy = stat(w.f.clone());
                let raw_ok = owned_copy.as_raw_str() == m.text;
                libcall("drop wrap", move || drop(w))?;
                libcall("drop copy", move || drop(owned_copy))?;
                if !raw_ok {
                    return Err(Violation::new("mismatch/as_raw_str", "borrowed struct field: raw text differs from the source value".to_string()));
                }
                let vt: &str = &text[target_sp.start..target_sp.end];
                stat(libcall("from_str::<LazyValue>", || sonic_rs::from_str::<LazyValue>(vt))?.map_err(|e| perr("from_str::<LazyValue>", vt, e))?)
            }
            _ => {
                trace::bump(C::lazy_route_serde);
                // the value text with surrounding whitespace
                let vt: &str = &text[target_sp.start..target_sp.end];
                stat(libcall("from_str::<LazyValue>", || sonic_rs::from_str::<LazyValue>(vt))?.map_err(|e| perr("from_str::<LazyValue>", vt, e))?)
            }
        }
    };
    tr!("  lazy handle route={} path={} raw={}", route, gen::path_str(path), oracle::truncate(&m.text));
    Ok(H::Lazy { v: lv, _keep: src.clone(), m })
}

fn ints_only(j: &J) -> bool {
    match j {
        // (integers the serde data model carries exactly: beyond 64 bits they would travel as f64)
        J::Num(n) => !n.contains(['.', 'e', 'E']) && n != "-0" && (oracle::expected_u64(n).is_some() || oracle::expected_i64(n).is_some()),
        J::Arr(a) => a.iter().all(ints_only),
        J::Obj(m) => m.iter().all(|(_, v)| ints_only(v)),
        _ => true,
    }
}

/// a fresh owned lazy value (with its model) by a drawn route
fn new_owned(cfg: &GenCfg) -> Result<(OwnedLazyValue, OM), Violation> {
    new_owned_depth(cfg, 0)
}

fn new_owned_depth(cfg: &GenCfg, depth: u32) -> Result<(OwnedLazyValue, OM), Violation> {
    trace::bump(C::lazy_handles);
    let route = draw(if depth < 2 { 13 } else { 8 });
    match route {
        8 => {
            // an array built from parts
            let mut vs = Vec::new();
            let mut ms = Vec::new();
            for _ in 0..draw(3) {
                let (v, m) = new_owned_depth(cfg, depth + 1)?;
                vs.push(v);
                ms.push(m);
            }
            Ok((libcall("From<Vec<OwnedLazyValue>>", || OwnedLazyValue::from(vs))?, OM::Arr(ms)))
        }
        9 => {
            // an object built from parts (unique keys)
            let mut vs: Vec<(FastStr, OwnedLazyValue)> = Vec::new();
            let mut ms: Vec<(String, OM)> = Vec::new();
            for k in 0..draw(3) {
                let (v, m) = new_owned_depth(cfg, depth + 1)?;
                let key = format!("{}{}", pick(&["p", "q\"", "é", ""]), k);
                vs.push((FastStr::new(&key), v));
                ms.push((key, m));
            }
            Ok((libcall("From<Vec<(FastStr, OwnedLazyValue)>>", || OwnedLazyValue::from(vs))?, OM::Obj(ms)))
        }
        11 => {
            // LazyArray constructors + Vec API, converted back
            use sonic_rs::LazyArray;
            let (v, m) = new_owned_depth(cfg, depth + 1)?;
            let (v2, m2) = new_owned_depth(cfg, depth + 1)?;
            let out = libcall("LazyArray::with_capacity + push + From", || {
                let mut a = if draw(2) == 0 { LazyArray::new() } else { LazyArray::with_capacity(3) };
                a.push(v);
                let b: LazyArray = vec![v2].into();
                let mut all = a;
                for x in b.iter() {
                    all.push(x.clone());
                }
                OwnedLazyValue::from(all)
            })?;
            let mut m2c = m2;
            m2c.make_fuzzy();
            Ok((out, OM::Arr(vec![m, m2c])))
        }
        12 => {
            use sonic_rs::LazyObject;
            let (v, m) = new_owned_depth(cfg, depth + 1)?;
            let out = libcall("LazyObject::new + append_pair + From", || {
                let mut o = if draw(2) == 0 { LazyObject::new() } else { LazyObject::with_capacity(2) };
                o.append_pair(FastStr::new("lo"), v);
                let o2: LazyObject = Vec::<(FastStr, OwnedLazyValue)>::new().into();
                let _ = o2.len();
                OwnedLazyValue::from(o)
            })?;
            Ok((out, OM::Obj(vec![("lo".to_string(), m)])))
        }
        10 => {
            // to_lazyvalue of an owned lazy value: a new raw value holding the serialization of the first
            let (v, m) = new_owned_depth(cfg, depth + 1)?;
            let text = m.exact_text();
            let j = m.to_j();
            let nv = libcall("to_lazyvalue(&owned)", || sonic_rs::to_lazyvalue(&v))?.map_err(|e| perr("to_lazyvalue(&owned)", &text, e))?;
            libcall("drop", move || drop(v))?;
            Ok((nv, OM::from_text(&text, j)))
        }
        0 => {
            let b = draw(2) == 1;
            Ok((OwnedLazyValue::from(b), OM::scalar(if b { "true" } else { "false" }, J::Bool(b))))
        }
        1 => Ok((OwnedLazyValue::from(()), OM::scalar("null", J::Null))),
        2 => Ok((OwnedLazyValue::default(), OM::scalar("null", J::Null))),
        _ => {
            let j = if chance(1, 3) { gen::gen_scalar(cfg) } else { gen::gen_j(cfg) };
            let text = gen::render(&j, &Style { ws: draw(3), esc: draw(3) });
            let r = owned_from_text(&text, &j, route);
            // an owned lazy value must not depend on the text it was made from
            gen::scrub(text);
            r
        }
    }
}

fn owned_from_text(text: &str, j: &J, route: u32) -> Result<(OwnedLazyValue, OM), Violation> {
    match route % 4 {
        0 => {
            trace::bump(C::lazy_route_owned_serde);
            let v = libcall("from_str::<OwnedLazyValue>", || sonic_rs::from_str::<OwnedLazyValue>(text))?.map_err(|e| perr("from_str::<OwnedLazyValue>", text, e))?;
            Ok((v, OM::from_text(text, j.clone())))
        }
        1 => {
            trace::bump(C::lazy_route_from_lazy);
            let v = libcall("From<LazyValue>", || sonic_rs::get_from_str(text, &[] as &[usize]).map(OwnedLazyValue::from))?.map_err(|e| perr("get+From<LazyValue>", text, e))?;
            Ok((v, OM::from_text(text, j.clone())))
        }
        2 if ints_only(j) => {
            trace::bump(C::lazy_route_to_lazyvalue);
            let v = libcall("to_lazyvalue", || sonic_rs::to_lazyvalue(&crate::jser::SerJ(j)))?.map_err(|e| perr("to_lazyvalue", text, e))?;
            let compact = refjson::to_compact(j);
            Ok((v, OM::from_text(&compact, j.clone())))
        }
        _ => {
            trace::bump(C::lazy_route_owned_serde);
            let wrapped = format!("{{ \"f\":{}}}", text);
            let w = libcall("from_str::<OwnedWrap>", || sonic_rs::from_str::<OwnedWrap>(&wrapped))?.map_err(|e| perr("from_str::<OwnedWrap>", &wrapped, e))?;
            Ok((w.f, OM::from_text(text, j.clone())))
        }
    }
}

/// `still_raw`: the handle is known to hold its number as raw text (every borrowed lazy value; an owned lazy
/// value that is not a clone of a possibly loaded one): then the raw-number view must be there. Otherwise
/// `None` is acceptable too (a parsed number keeps no literal, like the DOM by default).
fn check_raw_number<V: JsonValueTrait>(v: &V, j: &J, still_raw: bool, what: &str) -> Result<(), Violation> {
    let rn = v.as_raw_number();
    match (j, rn) {
        (J::Num(lit), Some(r)) => {
            if r.as_str() != lit && !refjson::num_eq(r.as_str(), lit) {
                return Err(Violation::new("mismatch/as_raw_number", format!("{}: as_raw_number = {:?} but the literal is {:?}", what, r.as_str(), lit)));
            }
            Ok(())
        }
        (J::Num(lit), None) if still_raw => Err(Violation::new("mismatch/as_raw_number", format!("{}: as_raw_number = None on the raw number {:?}", what, lit))),
        (J::Num(_), None) => Ok(()), // the DOM only keeps raw numbers when asked to; None is what it says by default
        (_, Some(r)) => Err(Violation::new("mismatch/as_raw_number", format!("{}: as_raw_number = Some({:?}) on a {:?}; the DOM of the same text says None", what, r.as_str(), j.kind()))),
        (_, None) => Ok(()),
    }
}

fn read_lazy(v: &LazyValue<'static>, m: &LM, what: &str) -> Result<(), Violation> {
    libcall("read lazy", || -> Result<(), Violation> {
        oracle::check_scalars(v, &m.j, what)?;
        check_raw_number(v, &m.j, true, what)?;
        if v.as_raw_str() != m.text {
            return Err(Violation::new("mismatch/as_raw_str", format!("{}: as_raw_str = {:?}, source span is {:?}", what, oracle::truncate(v.as_raw_str()), oracle::truncate(&m.text))));
        }
        {
            // comparison and hashing go by raw text; the default value is the text `null`
            use std::hash::{Hash, Hasher};
            let c = v.clone();
            let d = LazyValue::default();
            let h = |x: &LazyValue| {
                let mut s = std::collections::hash_map::DefaultHasher::new();
                x.hash(&mut s);
                s.finish()
            };
            if c != *v || c.cmp(v) != std::cmp::Ordering::Equal || h(&c) != h(v) || d.as_raw_str() != "null" || (d == *v) != (m.text == "null") {
                return Err(Violation::new("mismatch/lazy-eq", format!("{}: Eq / Ord / Hash / Default of a lazy value disagree with its raw text", what)));
            }
        }
        if v.as_raw_cow() != m.text.as_str() || v.as_raw_faststr().as_str() != m.text {
            return Err(Violation::new("mismatch/as_raw_cow", format!("{}: as_raw_cow / as_raw_faststr differ from the source span", what)));
        }
        // children: every member / element, by get, by pointer and by iteration
        match &m.j {
            J::Arr(a) => {
                for (i, (cj, cs)) in a.iter().zip(m.span.kids.iter()).enumerate() {
                    let c = v.get(i).ok_or_else(|| Violation::new("mismatch/get", format!("{}: get({}) is None", what, i)))?;
                    oracle::check_scalars(&c, cj, what)?;
                    if c.as_raw_str() != &m.text[cs.start..cs.end] {
                        return Err(Violation::new("mismatch/child-raw", format!("{}: element {} raw {:?} != {:?}", what, i, oracle::truncate(c.as_raw_str()), &m.text[cs.start..cs.end])));
                    }
                }
                if v.get(a.len()).is_some() || v.get("0").is_some() {
                    return Err(Violation::new("mismatch/get", format!("{}: get past the end / by key on an array is Some", what)));
                }
                let mut n = 0;
                for (i, item) in v.clone().into_array_iter().ok_or_else(|| Violation::new("mismatch/into_array_iter", format!("{}: None on an array", what)))?.enumerate() {
                    let item = item.map_err(|e| Violation::new("mismatch/array-iter", format!("{}: element {}: {}", what, i, e)))?;
                    let cs = &m.span.kids[i];
                    if item.as_raw_str() != &m.text[cs.start..cs.end] {
                        return Err(Violation::new("mismatch/child-raw", format!("{}: iterated element {} raw differs", what, i)));
                    }
                    oracle::check_scalars(&item, &a[i], &format!("{} (element {} from into_array_iter)", what, i))?;
                    // borrowed -> owned of an iterated item keeps its meaning
                    let o = OwnedLazyValue::from(item);
                    oracle::check_scalars(&o, &a[i], &format!("{} (owned from iterated element {})", what, i))?;
                    n += 1;
                }
                if n != a.len() {
                    return Err(Violation::new("mismatch/array-iter", format!("{}: iterator yielded {} of {} elements", what, n, a.len())));
                }
            }
            J::Obj(mm) => {
                for (k, _) in mm.iter() {
                    let c = v.get(k.as_str()).ok_or_else(|| Violation::new("mismatch/get", format!("{}: get({:?}) is None", what, k)))?;
                    // the first member with that name is the one a lookup by key means (as in the DOM)
                    let first = mm.iter().position(|(kk, _)| kk == k).unwrap();
                    let (cj, cs) = (&mm[first].1, &m.span.kids[first]);
                    oracle::check_scalars(&c, cj, what)?;
                    if c.as_raw_str() != &m.text[cs.start..cs.end] {
                        return Err(Violation::new("mismatch/child-raw", format!("{}: member {:?} raw {:?} != {:?}", what, k, oracle::truncate(c.as_raw_str()), &m.text[cs.start..cs.end])));
                    }
                    let p = v.pointer(&[k.as_str()]).ok_or_else(|| Violation::new("mismatch/pointer", format!("{}: pointer([{:?}]) is None", what, k)))?;
                    if p.as_raw_str() != c.as_raw_str() {
                        return Err(Violation::new("mismatch/pointer", format!("{}: pointer and get disagree on {:?}", what, k)));
                    }
                }
                if v.get("\u{1}absent").is_some() || v.get(0).is_some() {
                    return Err(Violation::new("mismatch/get", format!("{}: get of an absent key / by index on an object is Some", what)));
                }
                let mut n = 0;
                for (i, item) in v.clone().into_object_iter().ok_or_else(|| Violation::new("mismatch/into_object_iter", format!("{}: None on an object", what)))?.enumerate() {
                    let (k, item) = item.map_err(|e| Violation::new("mismatch/object-iter", format!("{}: member {}: {}", what, i, e)))?;
                    if k.as_ref() != mm[i].0.as_str() {
                        return Err(Violation::new("mismatch/object-iter-key", format!("{}: member {} key {:?} != {:?}", what, i, k, mm[i].0)));
                    }
                    let cs = &m.span.kids[i];
                    if item.as_raw_str() != &m.text[cs.start..cs.end] {
                        return Err(Violation::new("mismatch/child-raw", format!("{}: iterated member {} raw differs", what, i)));
                    }
                    oracle::check_scalars(&item, &mm[i].1, &format!("{} (member {} from into_object_iter)", what, i))?;
                    let o = OwnedLazyValue::from(item);
                    oracle::check_scalars(&o, &mm[i].1, &format!("{} (owned from iterated member {})", what, i))?;
                    n += 1;
                }
                if n != mm.len() {
                    return Err(Violation::new("mismatch/object-iter", format!("{}: iterator yielded {} of {} members", what, n, mm.len())));
                }
            }
            _ => {
                if v.get(0).is_some() || v.get("a").is_some() || v.clone().into_array_iter().is_some() || v.clone().into_object_iter().is_some() {
                    return Err(Violation::new("mismatch/get", format!("{}: a scalar answered a child query", what)));
                }
            }
        }
        Ok(())
    })?
}

fn read_owned(v: &OwnedLazyValue, m: &OM, what: &str) -> Result<(), Violation> {
    libcall("read owned", || read_owned_inner(v, m, what, 0))?
}

fn read_owned_inner(v: &OwnedLazyValue, m: &OM, what: &str, depth: u32) -> Result<(), Violation> {
    let j = m.to_j();
    oracle::check_scalars(v, &j, what)?;
    check_raw_number(v, &j, matches!(m, OM::Raw { fuzzy: false, .. }), what)?;
    match &j {
        J::Arr(a) => {
            let arr = v.as_array().ok_or_else(|| Violation::new("mismatch/as_array", format!("{}: None on an array", what)))?;
            if arr.len() != a.len() {
                return Err(Violation::new("mismatch/array.len", format!("{}: {} != {}", what, arr.len(), a.len())));
            }
            if v.as_object().is_some() {
                return Err(Violation::new("mismatch/as_object", format!("{}: Some on an array", what)));
            }
            for (i, cj) in a.iter().enumerate() {
                let c = v.get(i).ok_or_else(|| Violation::new("mismatch/get", format!("{}: get({}) is None", what, i)))?;
                if !std::ptr::eq(c, &arr[i]) {
                    return Err(Violation::new("mismatch/get", format!("{}: get({}) and as_array()[{}] are different elements", what, i, i)));
                }
                let p = v.pointer(&[i]).ok_or_else(|| Violation::new("mismatch/pointer", format!("{}: pointer([{}]) is None", what, i)))?;
                if !std::ptr::eq(c, p) {
                    return Err(Violation::new("mismatch/pointer", format!("{}: pointer and get disagree on {}", what, i)));
                }
                oracle::check_scalars(c, cj, what)?;
            }
            if v.get(a.len()).is_some() || v.get("0").is_some() {
                return Err(Violation::new("mismatch/get", format!("{}: get past the end / by key on an array is Some", what)));
            }
        }
        J::Obj(mm) => {
            let obj = v.as_object().ok_or_else(|| Violation::new("mismatch/as_object", format!("{}: None on an object", what)))?;
            if obj.len() != mm.len() {
                return Err(Violation::new("mismatch/object.len", format!("{}: {} != {}", what, obj.len(), mm.len())));
            }
            if v.as_array().is_some() {
                return Err(Violation::new("mismatch/as_array", format!("{}: Some on an object", what)));
            }
            for (i, (k, cj)) in mm.iter().enumerate() {
                if obj[i].0.as_str() != k {
                    return Err(Violation::new("mismatch/object.key", format!("{}: member {} key {:?} != {:?}", what, i, obj[i].0, k)));
                }
                oracle::check_scalars(&obj[i].1, cj, what)?;
                let c = v.get(k.as_str()).ok_or_else(|| Violation::new("mismatch/get", format!("{}: get({:?}) is None", what, k)))?;
                // the first member with that key
                let first = mm.iter().position(|(kk, _)| kk == k).unwrap();
                if !std::ptr::eq(c, &obj[first].1) {
                    return Err(Violation::new("mismatch/get", format!("{}: get({:?}) is not the first member with that key", what, k)));
                }
            }
            if v.get("\u{1}absent").is_some() || v.get(0).is_some() {
                return Err(Violation::new("mismatch/get", format!("{}: get of an absent key / by index on an object is Some", what)));
            }
        }
        _ => {
            if v.get(0).is_some() || v.get("a").is_some() || v.as_array().is_some() || v.as_object().is_some() {
                return Err(Violation::new("mismatch/get", format!("{}: a scalar answered a child query", what)));
            }
        }
    }
    // one level down, by model
    if depth < 2 {
        match m {
            OM::Arr(kids) => {
                for (i, k) in kids.iter().enumerate() {
                    read_owned_inner(v.get(i).unwrap(), k, what, depth + 1)?;
                }
            }
            OM::Obj(kids) => {
                let obj = v.as_object().unwrap();
                for (i, (_, k)) in kids.iter().enumerate() {
                    read_owned_inner(&obj[i].1, k, what, depth + 1)?;
                }
            }
            OM::Raw { .. } if chance(1, 4) => {
                let mut e = m.clone();
                e.expand();
                if let OM::Arr(kids) = &e {
                    for (i, k) in kids.iter().enumerate() {
                        read_owned_inner(v.get(i).unwrap(), k, what, depth + 1)?;
                    }
                }
            }
            _ => {}
        }
    }
    Ok(())
}

fn serialize_check(h: &H, what: &str) -> Result<(), Violation> {
    trace::bump(C::lazy_reserialize);
    match h {
        H::Lazy { v, m, .. } => {
            let mode = draw(4);
            let s = match mode {
                0 => libcall("to_string(lazy)", || sonic_rs::to_string(v))?,
                1 => libcall("to_vec(lazy)", || sonic_rs::to_vec(v).map(|b| String::from_utf8_lossy(&b).into_owned()))?,
                2 => libcall("Display(lazy)", || Ok(format!("{}", v)))?,
                _ => {
                    // embedded in a struct and serialized pretty: raw values are emitted verbatim
                    let e = Embed { a: v, b: 7 };
                    let s = libcall("to_string_pretty(struct with lazy)", || sonic_rs::to_string_pretty(&e))?.map_err(|e| Violation::new("mismatch/serialize-error", format!("{}: {}", what, e)))?;
                    let want = format!("{{\n  \"a\": {},\n  \"b\": 7\n}}", m.text);
                    if s != want {
                        return Err(Violation::new("lazy/serialization-differs", format!("{}: struct embedding gave {:?}, expected {:?}", what, oracle::truncate(&s), oracle::truncate(&want))));
                    }
                    return Ok(());
                }
            }
            .map_err(|e| Violation::new("mismatch/serialize-error", format!("{}: {}", what, e)))?;
            if s != m.text {
                return Err(Violation::new("lazy/serialization-differs", format!("{}: serialized {:?} but the raw text is {:?}", what, oracle::truncate(&s), oracle::truncate(&m.text))));
            }
            Ok(())
        }
        H::Owned { v, m } => {
            let s = if draw(4) == 0 {
                let e = Embed { a: v, b: 7 };
                let s = libcall("to_string(struct with owned lazy)", || sonic_rs::to_string(&e))?.map_err(|e| Violation::new("mismatch/serialize-error", format!("{}: {}", what, e)))?;
                match s.strip_prefix("{\"a\":").and_then(|r| r.strip_suffix(",\"b\":7}")) {
                    Some(inner) => inner.to_string(),
                    None => return Err(Violation::new("lazy/serialization-differs", format!("{}: struct embedding gave {:?}", what, oracle::truncate(&s)))),
                }
            } else {
                libcall("to_string(owned)", || sonic_rs::to_string(v))?.map_err(|e| Violation::new("mismatch/serialize-error", format!("{}: {}", what, e)))?
            };
            check_owned_text(&s, m, what)?;
            oracle::check_serialized(&s, &m.to_j(), what)
        }
    }
}

fn has_dup_keys(j: &J) -> bool {
    match j {
        J::Arr(a) => a.iter().any(has_dup_keys),
        J::Obj(m) => m.iter().enumerate().any(|(i, (k, v))| m.iter().position(|(kk, _)| kk == k) != Some(i) || has_dup_keys(v)),
        _ => false,
    }
}

fn draw_path(j: &J) -> Vec<Step> {
    let paths = gen::all_paths(j);
    pick(&paths).clone()
}

fn draw_step_for(j: &J) -> Step {
    match j {
        J::Arr(a) => Step::Idx(draw(a.len() as u32 + 1) as usize),
        J::Obj(m) if !m.is_empty() && chance(3, 4) => Step::Key(pick(m).0.clone()),
        _ => {
            if draw(2) == 0 {
                Step::Key("zz".into())
            } else {
                Step::Idx(0)
            }
        }
    }
}

pub fn run() -> SimResult {
    let mut cfg = GenCfg::draw_knobs();
    cfg.max_str = cfg.max_str.min(60);
    cfg.node_budget = cfg.node_budget.min(30);
    // one run in four: member names may repeat (first match is what a lookup by key means, as in the DOM)
    if chance(1, 4) {
        cfg.classes |= gen::CL_DUPKEY;
    }
    let style = Style::draw_knobs();
    // the source document; numeric- and literal-looking strings on purpose
    let mut j = gen::gen_j(&cfg);
    if chance(1, 4) {
        let extra = J::Str(pick(&["123", "-1e5", "true", "null", "0", "1.5", "[1]", "{}"]).to_string());
        match &mut j {
            J::Arr(a) => a.push(extra),
            J::Obj(m) if m.iter().all(|(k, _)| k != "num") => m.push(("num".into(), extra)),
            _ => j = extra,
        }
    }
    let (text, span) = gen::render_spans(&j, &style);
    tr!("doc {}", oracle::truncate(&text));
    let src = Arc::new(Source { bytes: bytes::Bytes::from(text.clone()), fs: FastStr::new(&text), text });
    let mut pool: Vec<H> = Vec::new();
    let nsteps = range(2, 24);
    let result = (|| -> Result<(), Violation> {
        // start with one or two handles
        for _ in 0..range(1, 2) {
            if draw(2) == 0 {
                let p = draw_path(&j);
                pool.push(obtain_lazy(&src, &j, &span, &p)?);
            } else {
                let p = draw_path(&j);
                let tj = gen::at_path(&j, &p).unwrap().clone();
                let sp = gen::span_at(&span, &j, &p).unwrap();
                let t: String = src.text[sp.start..sp.end].to_string();
                // keep some surrounding whitespace when the value is the root
                let tt = if p.is_empty() { src.text.clone() } else { t };
                let (v, m) = owned_from_text(&tt, &tj, draw(4))?;
                tr!("  owned handle path={} raw={}", gen::path_str(&p), oracle::truncate(&tt));
                gen::scrub(tt);
                pool.push(H::Owned { v, m });
            }
        }
        for step in 0..nsteps {
            trace::bump(C::lazy_steps);
            let what = format!("step {}", step);
            if pool.is_empty() {
                break;
            }
            let hi = draw(pool.len() as u32) as usize;
            let op = draw(18);
            match op {
                0 | 1 => {
                    tr!("{} read #{}", what, hi);
                    match &pool[hi] {
                        H::Lazy { v, m, .. } => read_lazy(v, m, &what)?,
                        H::Owned { v, m } => read_owned(v, m, &what)?,
                    }
                }
                2 => {
                    tr!("{} clone #{}", what, hi);
                    trace::bump(C::lazy_clones);
                    let n = match &pool[hi] {
                        H::Lazy { v, _keep, m } => H::Lazy { v: libcall("clone lazy", || v.clone())?, _keep: _keep.clone(), m: m.clone() },
                        H::Owned { v, m } => {
                            let mut mm = m.clone();
                            mm.make_fuzzy();
                            H::Owned { v: libcall("clone owned", || v.clone())?, m: mm }
                        }
                    };
                    pool.push(n);
                }
                3 => {
                    // borrowed -> owned
                    if let H::Lazy { v, m, .. } = &pool[hi] {
                        tr!("{} to-owned #{}", what, hi);
                        trace::bump(C::lazy_conversions);
                        let o = libcall("OwnedLazyValue::from(lazy)", || OwnedLazyValue::from(v.clone()))?;
                        let om = OM::Raw { text: m.text.clone(), j: m.j.clone(), span: m.span.clone(), fuzzy: false };
                        pool.push(H::Owned { v: o, m: om });
                    }
                }
                4 => {
                    // DOM of the raw text through TryFrom
                    if let H::Lazy { v, m, .. } = &pool[hi] {
                        tr!("{} Value::try_from #{}", what, hi);
                        let val = libcall("Value::try_from(lazy)", || Value::try_from(v.clone()))?.map_err(|e| Violation::new("mismatch/try_from", format!("{}: Value::try_from failed: {}", what, e)))?;
                        libcall("check dom", || oracle::check_value(&val, &m.j, &what))??;
                        libcall("drop dom", move || drop(val))?;
                    }
                }
                5 => {
                    // a child handle of a lazy value
                    if let H::Lazy { v, _keep, m } = &pool[hi] {
                        let paths = gen::all_paths(&m.j);
                        let p = pick(&paths).clone();
                        tr!("{} child of #{} at {}", what, hi, gen::path_str(&p));
                        let c = libcall("pointer", || v.pointer(&gen::to_pointer(&p)).map(|c| unsafe { stat(c) }))?;
                        let Some(c) = c else {
                            return Err(Violation::new("mismatch/pointer", format!("{}: pointer {} is None but the model has it", what, gen::path_str(&p))));
                        };
                        let cs = gen::span_at(&m.span, &m.j, &p).unwrap();
                        let cm = LM { text: m.text[cs.start..cs.end].to_string(), j: gen::at_path(&m.j, &p).unwrap().clone(), span: cs.rebased() };
                        pool.push(H::Lazy { v: c, _keep: _keep.clone(), m: cm });
                    }
                }
                6 => {
                    if pool.len() < 6 {
                        let p = draw_path(&j);
                        tr!("{} new lazy handle", what);
                        pool.push(obtain_lazy(&src, &j, &span, &p)?);
                    }
                }
                7 => {
                    if pool.len() < 6 {
                        tr!("{} new owned handle", what);
                        let (v, m) = new_owned(&cfg)?;
                        pool.push(H::Owned { v, m });
                    }
                }
                8 => {
                    tr!("{} drop #{}", what, hi);
                    let h = pool.swap_remove(hi);
                    if chance(1, 5) {
                        crate::runner::drop_unwinding(h)?;
                    } else {
                        libcall("drop handle", move || drop(h))?;
                    }
                }
                // ---- mutations of owned lazy values
                _ => {
                    // value to put somewhere: fresh, or a clone of another owned handle
                    let donor = if pool.len() > 1 && chance(1, 3) {
                        let k = draw(pool.len() as u32) as usize;
                        if let H::Owned { v, m } = &pool[k] {
                            let mut mm = m.clone();
                            mm.make_fuzzy();
                            Some((libcall("clone donor", || v.clone())?, mm))
                        } else {
                            None
                        }
                    } else {
                        None
                    };
                    let H::Owned { v, m } = &mut pool[hi] else { continue };
                    trace::bump(C::lazy_mutations);
                    trace::nontrivial();
                    let (nv, nm) = match donor {
                        Some(d) => d,
                        None => new_owned(&GenCfg::small())?,
                    };
                    let mj = m.to_j();
                    match op {
                        9 => {
                            // as_array_mut + Vec API
                            let sub = draw(6);
                            tr!("{} #{} as_array_mut op {}", what, hi, sub);
                            let is_arr = m.kind() == Kind::Arr;
                            let got = libcall("as_array_mut", || -> Result<bool, Violation> {
                                let Some(arr) = v.as_array_mut() else { return Ok(false) };
                                match sub {
                                    0 => arr.push(nv),
                                    1 => {
                                        arr.pop();
                                    }
                                    2 => {
                                        let at = if arr.is_empty() { 0 } else { arr.len() / 2 };
                                        arr.insert(at, nv)
                                    }
                                    3 => {
                                        if !arr.is_empty() {
                                            arr.remove(0);
                                        }
                                    }
                                    4 => arr.truncate(1),
                                    _ => {
                                        if let Some(last) = arr.last_mut() {
                                            *last = nv;
                                        }
                                    }
                                }
                                Ok(true)
                            })??;
                            if got != is_arr {
                                return Err(Violation::new("mismatch/as_array_mut", format!("{}: as_array_mut is_some={} on a {:?}", what, got, m.kind())));
                            }
                            if is_arr {
                                m.expand();
                                let OM::Arr(a) = m else { unreachable!() };
                                match sub {
                                    0 => a.push(nm),
                                    1 => {
                                        a.pop();
                                    }
                                    2 => {
                                        let at = if a.is_empty() { 0 } else { a.len() / 2 };
                                        a.insert(at, nm)
                                    }
                                    3 => {
                                        if !a.is_empty() {
                                            a.remove(0);
                                        }
                                    }
                                    4 => a.truncate(1),
                                    _ => {
                                        if let Some(last) = a.last_mut() {
                                            *last = nm;
                                        }
                                    }
                                }
                            }
                        }
                        10 => {
                            let sub = draw(4);
                            let mut key = pick(&["new", "k", "a", "é\"", ""]).to_string();
                            // the reference is a map: keep keys unique
                            while mj.get_key(&key).is_some() {
                                key.push('+');
                            }
                            tr!("{} #{} as_object_mut op {} key {:?}", what, hi, sub, key);
                            let is_obj = m.kind() == Kind::Obj;
                            let got = libcall("as_object_mut", || -> Result<bool, Violation> {
                                let Some(obj) = v.as_object_mut() else { return Ok(false) };
                                match sub {
                                    0 | 1 => obj.append_pair(FastStr::new(&key), nv),
                                    2 => {
                                        obj.pop();
                                    }
                                    _ => {
                                        if let Some(first) = obj.first_mut() {
                                            first.1 = nv;
                                        }
                                    }
                                }
                                Ok(true)
                            })??;
                            if got != is_obj {
                                return Err(Violation::new("mismatch/as_object_mut", format!("{}: as_object_mut is_some={} on a {:?}", what, got, m.kind())));
                            }
                            if is_obj {
                                m.expand();
                                let OM::Obj(o) = m else { unreachable!() };
                                match sub {
                                    0 | 1 => o.push((key, nm)),
                                    2 => {
                                        o.pop();
                                    }
                                    _ => {
                                        if let Some(first) = o.first_mut() {
                                            first.1 = nm;
                                        }
                                    }
                                }
                            }
                        }
                        11 | 12 => {
                            // get_mut: assign or take
                            let st = draw_step_for(&mj);
                            let take = op == 12;
                            tr!("{} #{} get_mut({:?}) {}", what, hi, st, if take { "take" } else { "assign" });
                            let got = libcall("get_mut", || {
                                let slot = match &st {
                                    Step::Idx(i) => v.get_mut(*i),
                                    Step::Key(k) => v.get_mut(k.as_str()),
                                };
                                match slot {
                                    Some(s) => {
                                        if take {
                                            Some(Some(s.take()))
                                        } else {
                                            *s = nv;
                                            Some(None)
                                        }
                                    }
                                    None => None,
                                }
                            })?;
                            let mslot = m.step_mut(&st);
                            match (got, mslot) {
                                (None, None) => {}
                                (Some(taken), Some(ms)) => {
                                    if take {
                                        let tm = std::mem::replace(ms, OM::scalar("null", J::Null));
                                        pool.push(H::Owned { v: taken.unwrap(), m: tm });
                                    } else {
                                        *ms = nm;
                                    }
                                }
                                (g, ms) => return Err(Violation::new("mismatch/get_mut", format!("{}: get_mut({:?}) is_some={} but the model says {}", what, st, g.is_some(), ms.is_some()))),
                            }
                        }
                        13 | 14 => {
                            let mut p = draw_path(&mj);
                            if chance(1, 8) {
                                p.push(draw_step_for(&J::Null));
                            }
                            let take = op == 14;
                            tr!("{} #{} pointer_mut({}) {}", what, hi, gen::path_str(&p), if take { "take" } else { "assign" });
                            let ptr = gen::to_pointer(&p);
                            let got = libcall("pointer_mut", || match v.pointer_mut(&ptr) {
                                Some(s) => {
                                    if take {
                                        Some(Some(s.take()))
                                    } else {
                                        *s = nv;
                                        Some(None)
                                    }
                                }
                                None => None,
                            })?;
                            let mslot = m.path_mut(&p);
                            match (got, mslot) {
                                (None, None) => {}
                                (Some(taken), Some(ms)) => {
                                    if take {
                                        let tm = std::mem::replace(ms, OM::scalar("null", J::Null));
                                        pool.push(H::Owned { v: taken.unwrap(), m: tm });
                                    } else {
                                        *ms = nm;
                                    }
                                }
                                (g, ms) => return Err(Violation::new("mismatch/pointer_mut", format!("{}: pointer_mut({}) is_some={} but the model says {}", what, gen::path_str(&p), g.is_some(), ms.is_some()))),
                            }
                        }
                        16 | 17 => {
                            // a read view (as_array / as_object) of this handle is cloned and the CLONE is mutated
                            // and turned back into a value of its own; the handle itself must not change
                            let sub = draw(3);
                            tr!("{} #{} clone of the as_array / as_object view, mutated (op {})", what, hi, sub);
                            let kind = m.kind();
                            let out: Option<OwnedLazyValue> = libcall("view.clone() + mutate", || {
                                if let Some(view) = v.as_array() {
                                    let mut c: sonic_rs::LazyArray = view.clone();
                                    match sub {
                                        0 => c.push(nv),
                                        1 => {
                                            c.pop();
                                        }
                                        _ => {
                                            if let Some(first) = c.first_mut() {
                                                *first = nv;
                                            }
                                        }
                                    }
                                    Some(OwnedLazyValue::from(c))
                                } else if let Some(view) = v.as_object() {
                                    let mut c: sonic_rs::LazyObject = view.clone();
                                    match sub {
                                        0 => c.append_pair(FastStr::new("added by the clone"), nv),
                                        1 => {
                                            c.pop();
                                        }
                                        _ => {
                                            if let Some(first) = c.first_mut() {
                                                first.1 = nv;
                                            }
                                        }
                                    }
                                    Some(OwnedLazyValue::from(c))
                                } else {
                                    None
                                }
                            })?;
                            match (out, kind) {
                                (Some(o), Kind::Arr) => {
                                    let mut mm = m.clone();
                                    mm.make_fuzzy();
                                    mm.expand();
                                    let OM::Arr(a) = &mut mm else { unreachable!() };
                                    match sub {
                                        0 => a.push(nm),
                                        1 => {
                                            a.pop();
                                        }
                                        _ => {
                                            if let Some(first) = a.first_mut() {
                                                *first = nm;
                                            }
                                        }
                                    }
                                    pool.push(H::Owned { v: o, m: mm });
                                }
                                (Some(o), Kind::Obj) => {
                                    let mut mm = m.clone();
                                    mm.make_fuzzy();
                                    mm.expand();
                                    let OM::Obj(ob) = &mut mm else { unreachable!() };
                                    match sub {
                                        0 => ob.push(("added by the clone".to_string(), nm)),
                                        1 => {
                                            ob.pop();
                                        }
                                        _ => {
                                            if let Some(first) = ob.first_mut() {
                                                first.1 = nm;
                                            }
                                        }
                                    }
                                    pool.push(H::Owned { v: o, m: mm });
                                }
                                (None, k) if k != Kind::Arr && k != Kind::Obj => {}
                                (o, k) => return Err(Violation::new("mismatch/as_array", format!("{}: as_array / as_object is_some={} on a {:?}", what, o.is_some(), k))),
                            }
                        }
                        _ => {
                            // root take: the handle becomes null, the taken value lives on
                            tr!("{} #{} take", what, hi);
                            let taken = libcall("take", || v.take())?;
                            let tm = std::mem::replace(m, OM::scalar("null", J::Null));
                            libcall("drop unused", move || drop(nv))?;
                            pool.push(H::Owned { v: taken, m: tm });
                        }
                    }
                }
            }
            // after every step: every live handle still serializes to what its model says
            for (k, h) in pool.iter().enumerate() {
                serialize_check(h, &format!("{} (handle #{})", what, k))?;
            }
        }
        // final full read of everything
        for (k, h) in pool.iter().enumerate() {
            let what = format!("final read of #{}", k);
            match h {
                H::Lazy { v, m, .. } => read_lazy(v, m, &what)?,
                H::Owned { v, m } => read_owned(v, m, &what)?,
            }
        }
        Ok(())
    })();
    libcall("drop pool", move || drop(pool))?;
    drop(src);
    result
}
