//! C05 — serialization output through every writer stack, under writer fault sequences.
//!
//! A typed value tree `G` is drawn model-first; its hand-written `Serialize` impl drives every
//! entry point of sonic's serializer. Each run serializes it (1) fault-free into a plain vector
//! (validated byte-for-byte against the reference rendering; float tokens by value) and (2)
//! through a drawn writer stack with a drawn fault plan (delivered bytes must equal / be a
//! prefix of (1), errors must surface).

use std::fmt;
use std::io::{self, Write as _};

use bytes::{BufMut, BytesMut};
use serde::ser::{SerializeMap, SerializeSeq, SerializeStruct, SerializeStructVariant, SerializeTuple, SerializeTupleStruct, SerializeTupleVariant};
use serde::{Serialize, Serializer};
use sonic_rs::writer::BufferedWriter;

use crate::choice::{chance, draw, pick, range};
use crate::gen;
use crate::refjson::{self, J};
use crate::runner::{libcall, SimResult, Violation};
use crate::sinks::{FaultPlan, FaultySink, GStr, GuardWindowWriter, Permanent};
use crate::tr;
use crate::trace::{self, C};

const NAMES: &[&str] = &["a", "b", "c", "key", "id", "x\"y", "é", "", "n\n", "long_field_name_with_more_than_32_characters_in_it", "k\\", "\u{1}"];
const VARIANTS: &[&str] = &["U", "N", "T", "S", "ET", "ES", "V\"q", "Ünï"];

#[derive(Debug)]
pub enum K {
    Str(GStr),
    I8(i8),
    I16(i16),
    I32(i32),
    I64(i64),
    I128(i128),
    U8(u8),
    U16(u16),
    U32(u32),
    U64(u64),
    U128(u128),
    Bool(bool),
    Char(char),
    F32(f32),
    F64(f64),
    UnitVariant(&'static str),
    Newtype(Box<K>),
    Some(Box<K>),
    CollectStr(Vec<String>),
    // kinds that must be rejected
    BadSeq,
    BadMap,
    BadUnit,
    BadBytes,
    BadNone,
    BadUnitStruct,
    BadTuple,
    BadStruct,
    BadNewtypeVariant,
    BadTupleVariant,
    BadStructVariant,
    BadTupleStruct,
    BadNonFinite(u8),
}

#[derive(Debug)]
pub enum G {
    Unit,
    Bool(bool),
    I8(i8),
    I16(i16),
    I32(i32),
    I64(i64),
    I128(i128),
    U8(u8),
    U16(u16),
    U32(u32),
    U64(u64),
    U128(u128),
    F32(f32),
    F64(f64),
    Char(char),
    Str(GStr),
    Bytes(Vec<u8>),
    None,
    Some(Box<G>),
    UnitStruct,
    UnitVariant(&'static str),
    NewtypeStruct(Box<G>),
    NewtypeVariant(&'static str, Box<G>),
    Seq(Vec<G>, bool),
    Tuple(Vec<G>),
    TupleStruct(Vec<G>),
    TupleVariant(&'static str, Vec<G>),
    Map(Vec<(K, G)>, bool),
    Struct(Vec<(&'static str, G)>),
    StructVariant(&'static str, Vec<(&'static str, G)>),
    CollectStr(Vec<String>),
    Dom(sonic_rs::Value, J),
    RawNumber(sonic_rs::RawNumber, String),
    Lazy(String),
    OwnedLazy(sonic_rs::OwnedLazyValue, String),
    Fail,
}

struct Chunks<'a>(&'a [String]);
impl<'a> fmt::Display for Chunks<'a> {
    fn fmt(&self, f: &mut fmt::Formatter<'_>) -> fmt::Result {
        for c in self.0 {
            f.write_str(c)?;
        }
        Ok(())
    }
}

struct FailingSeq;
impl Serialize for FailingSeq {
    fn serialize<S: Serializer>(&self, s: S) -> Result<S::Ok, S::Error> {
        let mut q = s.serialize_seq(Some(3))?;
        q.serialize_element(&1u8)?;
        Err(serde::ser::Error::custom("element refuses to serialize"))
    }
}

impl Serialize for K {
    fn serialize<S: Serializer>(&self, s: S) -> Result<S::Ok, S::Error> {
        match self {
            K::Str(x) => s.serialize_str(x.as_str()),
            K::I8(v) => s.serialize_i8(*v),
            K::I16(v) => s.serialize_i16(*v),
            K::I32(v) => s.serialize_i32(*v),
            K::I64(v) => s.serialize_i64(*v),
            K::I128(v) => s.serialize_i128(*v),
            K::U8(v) => s.serialize_u8(*v),
            K::U16(v) => s.serialize_u16(*v),
            K::U32(v) => s.serialize_u32(*v),
            K::U64(v) => s.serialize_u64(*v),
            K::U128(v) => s.serialize_u128(*v),
            K::Bool(v) => s.serialize_bool(*v),
            K::Char(v) => s.serialize_char(*v),
            K::F32(v) => s.serialize_f32(*v),
            K::F64(v) => s.serialize_f64(*v),
            K::UnitVariant(n) => s.serialize_unit_variant("E", 0, n),
            K::Newtype(k) => s.serialize_newtype_struct("NT", &**k),
            K::Some(k) => s.serialize_some(&**k),
            K::CollectStr(c) => s.collect_str(&Chunks(c)),
            K::BadSeq => s.serialize_seq(Some(0))?.end(),
            K::BadMap => s.serialize_map(Some(0))?.end(),
            K::BadUnit => s.serialize_unit(),
            K::BadBytes => s.serialize_bytes(b"ab"),
            K::BadNone => s.serialize_none(),
            K::BadUnitStruct => s.serialize_unit_struct("US"),
            K::BadTuple => s.serialize_tuple(0)?.end(),
            K::BadStruct => s.serialize_struct("St", 0)?.end(),
            K::BadNewtypeVariant => s.serialize_newtype_variant("E", 1, "N", &1u8),
            K::BadTupleVariant => s.serialize_tuple_variant("E", 2, "T", 0)?.end(),
            K::BadTupleStruct => s.serialize_tuple_struct("TS", 0)?.end(),
            K::BadStructVariant => s.serialize_struct_variant("E", 3, "S", 0)?.end(),
            K::BadNonFinite(w) => match w {
                0 => s.serialize_f64(f64::NAN),
                1 => s.serialize_f64(f64::INFINITY),
                2 => s.serialize_f32(f32::NEG_INFINITY),
                _ => s.serialize_f32(f32::NAN),
            },
        }
    }
}

impl Serialize for G {
    fn serialize<S: Serializer>(&self, s: S) -> Result<S::Ok, S::Error> {
        match self {
            G::Unit => s.serialize_unit(),
            G::Bool(v) => s.serialize_bool(*v),
            G::I8(v) => s.serialize_i8(*v),
            G::I16(v) => s.serialize_i16(*v),
            G::I32(v) => s.serialize_i32(*v),
            G::I64(v) => s.serialize_i64(*v),
            G::I128(v) => s.serialize_i128(*v),
            G::U8(v) => s.serialize_u8(*v),
            G::U16(v) => s.serialize_u16(*v),
            G::U32(v) => s.serialize_u32(*v),
            G::U64(v) => s.serialize_u64(*v),
            G::U128(v) => s.serialize_u128(*v),
            G::F32(v) => s.serialize_f32(*v),
            G::F64(v) => s.serialize_f64(*v),
            G::Char(v) => s.serialize_char(*v),
            G::Str(x) => s.serialize_str(x.as_str()),
            G::Bytes(b) => s.serialize_bytes(b),
            G::None => s.serialize_none(),
            G::Some(g) => s.serialize_some(&**g),
            G::UnitStruct => s.serialize_unit_struct("US"),
            G::UnitVariant(n) => s.serialize_unit_variant("E", 0, n),
            G::NewtypeStruct(g) => s.serialize_newtype_struct("NT", &**g),
            G::NewtypeVariant(n, g) => s.serialize_newtype_variant("E", 1, n, &**g),
            G::Seq(v, hint) => {
                let mut q = s.serialize_seq(if *hint { Some(v.len()) } else { None })?;
                for x in v {
                    q.serialize_element(x)?;
                }
                q.end()
            }
            G::Tuple(v) => {
                let mut q = s.serialize_tuple(v.len())?;
                for x in v {
                    q.serialize_element(x)?;
                }
                q.end()
            }
            G::TupleStruct(v) => {
                let mut q = s.serialize_tuple_struct("TS", v.len())?;
                for x in v {
                    q.serialize_field(x)?;
                }
                q.end()
            }
            G::TupleVariant(n, v) => {
                let mut q = s.serialize_tuple_variant("E", 2, n, v.len())?;
                for x in v {
                    q.serialize_field(x)?;
                }
                q.end()
            }
            G::Map(m, hint) => {
                let mut q = s.serialize_map(if *hint { Some(m.len()) } else { None })?;
                for (i, (k, v)) in m.iter().enumerate() {
                    if i % 2 == 0 {
                        q.serialize_entry(k, v)?;
                    } else {
                        q.serialize_key(k)?;
                        q.serialize_value(v)?;
                    }
                }
                q.end()
            }
            G::Struct(f) => {
                let mut q = s.serialize_struct("St", f.len())?;
                for (k, v) in f {
                    q.serialize_field(k, v)?;
                }
                q.end()
            }
            G::StructVariant(n, f) => {
                let mut q = s.serialize_struct_variant("E", 3, n, f.len())?;
                for (k, v) in f {
                    q.serialize_field(k, v)?;
                }
                q.end()
            }
            G::CollectStr(c) => s.collect_str(&Chunks(c)),
            G::Dom(v, _) => v.serialize(s),
            G::RawNumber(r, _) => r.serialize(s),
            G::Lazy(text) => {
                // a borrowed LazyValue obtained from the text right here
                match sonic_rs::get_from_str(text, &[] as &[usize]) {
                    Ok(lv) => lv.serialize(s),
                    Err(e) => Err(serde::ser::Error::custom(format!("harness: get failed: {}", e))),
                }
            }
            G::OwnedLazy(v, _) => v.serialize(s),
            G::Fail => FailingSeq.serialize(s),
        }
    }
}

// ------------------------------------------------------------------------------------------
// expected output

#[derive(Debug, Clone)]
pub enum EK {
    Str(String),
    F64(f64),
    F32(f32),
}

#[derive(Debug, Clone)]
pub enum E {
    Lit(&'static str),
    Int(String),
    F64(f64),
    F32(f32),
    Str(String),
    Arr(Vec<E>),
    Obj(Vec<(EK, E)>),
    Raw(String),
}

fn e_from_j(j: &J) -> E {
    match j {
        J::Null => E::Lit("null"),
        J::Bool(true) => E::Lit("true"),
        J::Bool(false) => E::Lit("false"),
        J::Num(n) => match refjson::num_val(n) {
            refjson::NumVal::U(u) => E::Int(u.to_string()),
            refjson::NumVal::I(i) => E::Int(i.to_string()),
            refjson::NumVal::F(f) => E::F64(f),
        },
        J::Str(s) => E::Str(s.clone()),
        J::Arr(a) => E::Arr(a.iter().map(e_from_j).collect()),
        J::Obj(m) => E::Obj(m.iter().map(|(k, v)| (EK::Str(k.clone()), e_from_j(v))).collect()),
    }
}

fn expect_key(k: &K) -> Result<EK, String> {
    Ok(match k {
        K::Str(s) => EK::Str(s.as_str().to_string()),
        K::I8(v) => EK::Str(v.to_string()),
        K::I16(v) => EK::Str(v.to_string()),
        K::I32(v) => EK::Str(v.to_string()),
        K::I64(v) => EK::Str(v.to_string()),
        K::I128(v) => EK::Str(v.to_string()),
        K::U8(v) => EK::Str(v.to_string()),
        K::U16(v) => EK::Str(v.to_string()),
        K::U32(v) => EK::Str(v.to_string()),
        K::U64(v) => EK::Str(v.to_string()),
        K::U128(v) => EK::Str(v.to_string()),
        K::Bool(v) => EK::Str(v.to_string()),
        K::Char(c) => EK::Str(c.to_string()),
        K::F32(v) => EK::F32(*v),
        K::F64(v) => EK::F64(*v),
        K::UnitVariant(n) => EK::Str(n.to_string()),
        K::Newtype(k) | K::Some(k) => expect_key(k)?,
        K::CollectStr(c) => EK::Str(c.concat()),
        other => return Err(format!("map key {:?} must be rejected", other)),
    })
}

fn fin64(v: f64) -> E {
    if v.is_finite() {
        E::F64(v)
    } else {
        E::Lit("null")
    }
}
fn fin32(v: f32) -> E {
    if v.is_finite() {
        E::F32(v)
    } else {
        E::Lit("null")
    }
}

pub fn expect(g: &G) -> Result<E, String> {
    Ok(match g {
        G::Unit | G::None | G::UnitStruct => E::Lit("null"),
        G::Bool(true) => E::Lit("true"),
        G::Bool(false) => E::Lit("false"),
        G::I8(v) => E::Int(v.to_string()),
        G::I16(v) => E::Int(v.to_string()),
        G::I32(v) => E::Int(v.to_string()),
        G::I64(v) => E::Int(v.to_string()),
        G::I128(v) => E::Int(v.to_string()),
        G::U8(v) => E::Int(v.to_string()),
        G::U16(v) => E::Int(v.to_string()),
        G::U32(v) => E::Int(v.to_string()),
        G::U64(v) => E::Int(v.to_string()),
        G::U128(v) => E::Int(v.to_string()),
        G::F32(v) => fin32(*v),
        G::F64(v) => fin64(*v),
        G::Char(c) => E::Str(c.to_string()),
        G::Str(s) => E::Str(s.as_str().to_string()),
        G::Bytes(b) => E::Arr(b.iter().map(|x| E::Int(x.to_string())).collect()),
        G::Some(g) | G::NewtypeStruct(g) => expect(g)?,
        G::UnitVariant(n) => E::Str(n.to_string()),
        G::NewtypeVariant(n, g) => E::Obj(vec![(EK::Str(n.to_string()), expect(g)?)]),
        G::Seq(v, _) | G::Tuple(v) | G::TupleStruct(v) => E::Arr(v.iter().map(expect).collect::<Result<_, _>>()?),
        G::TupleVariant(n, v) => E::Obj(vec![(EK::Str(n.to_string()), E::Arr(v.iter().map(expect).collect::<Result<_, _>>()?))]),
        G::Map(m, _) => {
            let mut out = Vec::new();
            for (k, v) in m {
                out.push((expect_key(k)?, expect(v)?));
            }
            E::Obj(out)
        }
        G::Struct(f) => E::Obj(f.iter().map(|(k, v)| Ok((EK::Str(k.to_string()), expect(v)?))).collect::<Result<_, String>>()?),
        G::StructVariant(n, f) => E::Obj(vec![(
            EK::Str(n.to_string()),
            E::Obj(f.iter().map(|(k, v)| Ok((EK::Str(k.to_string()), expect(v)?))).collect::<Result<_, String>>()?),
        )]),
        G::CollectStr(c) => E::Str(c.concat()),
        G::Dom(_, j) => e_from_j(j),
        G::RawNumber(_, lit) => E::Raw(lit.clone()),
        G::Lazy(text) => E::Raw(text.trim().to_string()),
        G::OwnedLazy(_, text) => E::Raw(text.trim().to_string()),
        G::Fail => return Err("Serialize impl fails on purpose".into()),
    })
}

const FLOAT_OPEN: char = '\u{1}';
const FLOAT_CLOSE: char = '\u{2}';

fn render_float(out: &mut String, bits: u64, is32: bool) {
    out.push(FLOAT_OPEN);
    out.push_str(&format!("{}{:x}", if is32 { 's' } else { 'd' }, bits));
    out.push(FLOAT_CLOSE);
}

fn render_key(out: &mut String, k: &EK) {
    match k {
        EK::Str(s) => refjson::write_escaped(out, s),
        EK::F64(f) => {
            out.push('"');
            render_float(out, f.to_bits(), false);
            out.push('"');
        }
        EK::F32(f) => {
            out.push('"');
            render_float(out, f.to_bits() as u64, true);
            out.push('"');
        }
    }
}

fn has_raw(e: &E) -> bool {
    match e {
        E::Raw(_) => true,
        E::Arr(a) => a.iter().any(has_raw),
        E::Obj(m) => m.iter().any(|(_, v)| has_raw(v)),
        _ => false,
    }
}

pub fn render_expected(e: &E, pretty: bool) -> String {
    let mut s = String::new();
    render_e(e, pretty, 0, &mut s);
    s
}

fn ind(out: &mut String, n: usize) {
    for _ in 0..n {
        out.push_str("  ");
    }
}

fn render_e(e: &E, pretty: bool, depth: usize, out: &mut String) {
    match e {
        E::Lit(l) => out.push_str(l),
        E::Int(i) => out.push_str(i),
        E::F64(f) => render_float(out, f.to_bits(), false),
        E::F32(f) => render_float(out, f.to_bits() as u64, true),
        E::Str(s) => refjson::write_escaped(out, s),
        E::Raw(r) => out.push_str(r),
        E::Arr(a) => {
            if a.is_empty() {
                out.push_str("[]");
                return;
            }
            out.push('[');
            for (i, x) in a.iter().enumerate() {
                if pretty {
                    out.push_str(if i > 0 { ",\n" } else { "\n" });
                    ind(out, depth + 1);
                } else if i > 0 {
                    out.push(',');
                }
                render_e(x, pretty, depth + 1, out);
            }
            if pretty {
                out.push('\n');
                ind(out, depth);
            }
            out.push(']');
        }
        E::Obj(m) => {
            if m.is_empty() {
                out.push_str("{}");
                return;
            }
            out.push('{');
            for (i, (k, v)) in m.iter().enumerate() {
                if pretty {
                    out.push_str(if i > 0 { ",\n" } else { "\n" });
                    ind(out, depth + 1);
                } else if i > 0 {
                    out.push(',');
                }
                render_key(out, k);
                out.push_str(if pretty { ": " } else { ":" });
                render_e(v, pretty, depth + 1, out);
            }
            if pretty {
                out.push('\n');
                ind(out, depth);
            }
            out.push('}');
        }
    }
}

/// Compare actual output with the expected rendering: byte-for-byte, except that a float
/// placeholder matches any JSON number token that parses back to the same bits.
pub fn match_output(actual: &[u8], expected: &str) -> Result<(), String> {
    let Ok(act) = std::str::from_utf8(actual) else {
        return Err("output is not valid UTF-8".into());
    };
    let a = act.as_bytes();
    let e = expected.as_bytes();
    let (mut i, mut j) = (0usize, 0usize);
    while j < e.len() {
        if e[j] == FLOAT_OPEN as u8 {
            let close = j + e[j..].iter().position(|&b| b == FLOAT_CLOSE as u8).unwrap();
            let is32 = e[j + 1] == b's';
            let bits = u64::from_str_radix(&expected[j + 2..close], 16).unwrap();
            let st = i;
            while i < a.len() && matches!(a[i], b'-' | b'+' | b'.' | b'e' | b'E' | b'0'..=b'9') {
                i += 1;
            }
            let tok = &act[st..i];
            if !refjson::is_number_token(tok) {
                return Err(format!("at byte {}: expected a float token, found {:?}", st, crate::oracle::truncate(&act[st..])));
            }
            let ok = if is32 {
                tok.parse::<f32>().map(|f| f.to_bits() as u64 == bits || (f == 0.0 && f32::from_bits(bits as u32) == 0.0 && f.to_bits() as u64 == bits)).unwrap_or(false)
            } else {
                tok.parse::<f64>().map(|f| f.to_bits() == bits).unwrap_or(false)
            };
            if !ok {
                return Err(format!("at byte {}: float token {:?} does not denote the value (bits {:x}, f32={})", st, tok, bits, is32));
            }
            j = close + 1;
            continue;
        }
        if i >= a.len() || a[i] != e[j] {
            let from = i.saturating_sub(20);
            let mut lo = from;
            while !act.is_char_boundary(lo) {
                lo -= 1;
            }
            return Err(format!(
                "outputs differ at byte {}: got …{:?}, expected …{:?}",
                i,
                crate::oracle::truncate(&act[lo..]),
                crate::oracle::truncate(&String::from_utf8_lossy(&e[j.saturating_sub(i - lo)..]))
            ));
        }
        i += 1;
        j += 1;
    }
    if i != a.len() {
        return Err(format!("output has {} extra trailing byte(s): {:?}", a.len() - i, crate::oracle::truncate(&act[i..])));
    }
    Ok(())
}

// ------------------------------------------------------------------------------------------
// generation

struct Knobs {
    classes: u32,
    max_str: u32,
    guarded: bool,
    near_page: bool,
    exotic: bool,
    bad_keys: bool,
    fail: bool,
    embed: bool,
}

fn gen_gstr(kn: &Knobs, s: String) -> GStr {
    if kn.guarded {
        let dist = if kn.near_page || chance(1, 2) { draw(41) as usize } else { *pick(&[64usize, 100, 1000, 4000, 31, 32, 33]) };
        GStr::new(&s, dist)
    } else {
        GStr::Heap(s)
    }
}

fn gen_text(kn: &Knobs) -> String {
    let n = gen::gen_len(kn.max_str);
    if kn.classes & gen::CL_CTRL != 0 && chance(1, 12) {
        // worst case for the reserved window: (almost) every byte expands to a six-byte escape
        let mut s = String::new();
        for _ in 0..n {
            if chance(1, 16) {
                s.push('a');
            } else {
                s.push(char::from_u32(*pick(&[0u32, 1, 2, 3, 4, 5, 6, 7, 0xb, 0xe, 0xf, 0x10, 0x1a, 0x1b, 0x1e, 0x1f])).unwrap());
            }
        }
        return s;
    }
    gen::gen_string_len(kn.classes, n)
}

fn gen_f64() -> f64 {
    match draw(10) {
        0 => 0.0,
        1 => -0.0,
        2 => 1.5,
        3 => *pick(&[f64::NAN, f64::INFINITY, f64::NEG_INFINITY]),
        4 => *pick(&[1e20, 1e21, 1e-7, 5e-324, f64::MAX, f64::MIN_POSITIVE, 1.2345678901234568e17, 0.1, 1e15, 1e16, 123456789012345680.0]),
        5 => f64::from_bits(((draw(u32::MAX) as u64) << 32) | draw(u32::MAX) as u64),
        6 => (draw(2_000_001) as f64 - 1_000_000.0) / 1000.0,
        7 => draw(1000) as f64,
        8 => -(draw(u32::MAX) as f64) * 1e10,
        _ => (draw(u32::MAX) as f64) / (1u64 << draw(60)) as f64,
    }
}

fn gen_f32() -> f32 {
    match draw(6) {
        0 => 0.0,
        1 => -0.0,
        2 => *pick(&[f32::NAN, f32::INFINITY, f32::NEG_INFINITY]),
        3 => *pick(&[1.5f32, 0.1, 3.4028235e38, 1e-45, 16777216.0, 1e10]),
        4 => f32::from_bits(draw(u32::MAX)),
        _ => (draw(200_001) as f32 - 100_000.0) / 100.0,
    }
}

fn wide() -> u64 {
    ((draw(u32::MAX) as u64) << 32) | draw(u32::MAX) as u64
}

fn gen_int_g() -> G {
    match draw(12) {
        0 => G::I8(*pick(&[0, -1, 1, i8::MIN, i8::MAX])),
        1 => G::I16(*pick(&[0, -300, i16::MIN, i16::MAX])),
        2 => G::I32(*pick(&[0, -70000, i32::MIN, i32::MAX])),
        3 => G::I64(*pick(&[0, -1, i64::MIN, i64::MAX, 9007199254740993])),
        4 => G::I128(*pick(&[0, -1, i128::MIN, i128::MAX, i64::MIN as i128 - 1])),
        5 => G::U8(draw(256) as u8),
        6 => G::U16(*pick(&[0, 65535, 256])),
        7 => G::U32(draw(u32::MAX)),
        8 => G::U64(*pick(&[0, u64::MAX, 1 << 63, 9007199254740993])),
        9 => G::U128(*pick(&[0, u128::MAX, u64::MAX as u128 + 1])),
        10 => G::I64(wide() as i64),
        _ => G::U64(wide()),
    }
}

fn gen_key(kn: &Knobs, depth: u32) -> K {
    if kn.bad_keys && chance(1, 6) {
        return match draw(13) {
            12 => K::BadTupleStruct,
            0 => K::BadSeq,
            1 => K::BadMap,
            2 => K::BadUnit,
            3 => K::BadBytes,
            4 => K::BadNone,
            5 => K::BadUnitStruct,
            6 => K::BadTuple,
            7 => K::BadStruct,
            8 => K::BadNewtypeVariant,
            9 => K::BadTupleVariant,
            10 => K::BadStructVariant,
            _ => K::BadNonFinite(draw(4) as u8),
        };
    }
    if !kn.exotic || chance(1, 2) {
        return K::Str(gen_gstr(kn, if chance(1, 3) { gen_text(kn) } else { gen::gen_key(&gen::GenCfg { max_depth: 0, max_width: 0, max_str: kn.max_str.min(40), classes: kn.classes, node_budget: 0 }) }));
    }
    match draw(17) {
        16 => K::CollectStr((0..draw(3)).map(|_| gen_text(kn)).collect()),
        0 => K::I8(-5),
        1 => K::I16(i16::MIN),
        2 => K::I32(draw(1000) as i32 - 500),
        3 => K::I64(wide() as i64),
        4 => K::I128(i128::MIN),
        5 => K::U8(draw(256) as u8),
        6 => K::U16(65535),
        7 => K::U32(draw(u32::MAX)),
        8 => K::U64(wide()),
        9 => K::U128(u128::MAX),
        10 => K::Bool(draw(2) == 1),
        11 => K::Char(gen::gen_char(kn.classes)),
        12 => {
            let f = gen_f64();
            if f.is_finite() {
                K::F64(f)
            } else {
                K::F64(2.5)
            }
        }
        13 => {
            let f = gen_f32();
            if f.is_finite() {
                K::F32(f)
            } else {
                K::F32(0.25)
            }
        }
        14 => K::UnitVariant(*pick(VARIANTS)),
        _ => {
            if depth < 2 {
                let inner = Box::new(gen_key(kn, depth + 1));
                if draw(2) == 0 {
                    K::Newtype(inner)
                } else {
                    K::Some(inner)
                }
            } else {
                K::CollectStr(vec![gen_text(kn), gen_text(kn)])
            }
        }
    }
}

fn gen_embedded(kn: &Knobs) -> Option<G> {
    let cfg = gen::GenCfg { max_depth: 2, max_width: 3, max_str: kn.max_str.min(40), classes: kn.classes, node_budget: 8 };
    Some(match draw(4) {
        0 => {
            let j = gen::gen_j(&cfg);
            let text = gen::render(&j, &gen::Style::draw_knobs());
            let v: sonic_rs::Value = sonic_rs::from_str(&text).ok()?;
            G::Dom(v, j)
        }
        0 => G::CollectStr(vec!["miri".into()]),
        1 => {
            let lit = gen::gen_number();
            let r: sonic_rs::RawNumber = sonic_rs::from_str(&lit).ok()?;
            G::RawNumber(r, lit)
        }
        2 => {
            let j = gen::gen_j(&cfg);
            G::Lazy(gen::render(&j, &gen::Style::draw_knobs()))
        }
        _ => {
            let j = gen::gen_j(&cfg);
            let text = gen::render(&j, &gen::Style::draw_knobs());
            let v: sonic_rs::OwnedLazyValue = sonic_rs::from_str(&text).ok()?;
            G::OwnedLazy(v, text)
        }
    })
}

fn gen_g(kn: &Knobs, depth: u32, budget: &mut i32) -> G {
    *budget -= 1;
    let leaf = depth >= 4 || *budget <= 0 || chance(2, 5);
    if leaf {
        return match draw(14) {
            0 => G::Unit,
            1 => G::Bool(draw(2) == 1),
            2 | 3 => gen_int_g(),
            4 => G::F64(gen_f64()),
            5 => G::F32(gen_f32()),
            6 => G::Char(gen::gen_char(kn.classes)),
            7 | 8 | 9 => G::Str(gen_gstr(kn, gen_text(kn))),
            10 => G::Bytes((0..draw(6)).map(|_| draw(256) as u8).collect()),
            11 => if draw(2) == 0 { G::None } else { G::UnitStruct },
            12 => G::UnitVariant(*pick(VARIANTS)),
            _ => {
                if kn.fail && chance(1, 4) {
                    G::Fail
                } else if kn.embed {
                    gen_embedded(kn).unwrap_or(G::Unit)
                } else {
                    G::CollectStr((0..draw(4)).map(|_| gen_text(kn)).collect())
                }
            }
        };
    }
    let n = draw(5) as usize;
    let mut kids = |kn: &Knobs, budget: &mut i32| -> Vec<G> { (0..n).map(|_| gen_g(kn, depth + 1, budget)).collect() };
    match draw(12) {
        0 => G::Some(Box::new(gen_g(kn, depth + 1, budget))),
        1 => G::NewtypeStruct(Box::new(gen_g(kn, depth + 1, budget))),
        2 => G::NewtypeVariant(*pick(VARIANTS), Box::new(gen_g(kn, depth + 1, budget))),
        3 | 4 => G::Seq(kids(kn, budget), draw(2) == 1),
        5 => G::Tuple(kids(kn, budget)),
        6 => G::TupleStruct(kids(kn, budget)),
        7 => G::TupleVariant(*pick(VARIANTS), kids(kn, budget)),
        8 | 9 => {
            let mut m: Vec<(K, G)> = Vec::new();
            for _ in 0..n {
                m.push((gen_key(kn, 0), gen_g(kn, depth + 1, budget)));
            }
            G::Map(m, draw(2) == 1)
        }
        10 => G::Struct((0..n).map(|_| (*pick(NAMES), gen_g(kn, depth + 1, budget))).collect()),
        _ => G::StructVariant(*pick(VARIANTS), (0..n).map(|_| (*pick(NAMES), gen_g(kn, depth + 1, budget))).collect()),
    }
}

// ------------------------------------------------------------------------------------------
// writer stacks

pub const N_STACKS: u32 = 12;

struct StackOutcome {
    name: &'static str,
    result: Result<(), String>,
    delivered: Vec<u8>,
    /// a permanent fault was returned to a call made during to_writer
    fault_during_call: bool,
    /// a permanent fault was returned at all (possibly only to the harness's final flush)
    fault_reached: bool,
    protocol_violation: Option<String>,
    faultable: bool,
}

thread_local! {
    /// 0 = one value per writer; 1 / 2 = two values wanted (two calls / one reused Serializer); 3 = two values written
    static TWICE: std::cell::Cell<u8> = const { std::cell::Cell::new(0) };
}

fn ser_to<W: sonic_rs::writer::WriteExt>(w: W, g: &G, pretty: bool) -> Result<(), String> {
    match TWICE.with(|c| c.get()) {
        1 => {
            // the same writer takes a second value after the first (no separator is written by the library)
            let mut w = w;
            let r = if pretty { sonic_rs::to_writer_pretty(&mut w, g) } else { sonic_rs::to_writer(&mut w, g) };
            r.map_err(|e| e.to_string())?;
            TWICE.with(|c| c.set(3));
            let r = if pretty { sonic_rs::to_writer_pretty(&mut w, g) } else { sonic_rs::to_writer(&mut w, g) };
            r.map_err(|e| e.to_string())
        }
        2 => {
            // one Serializer, reused for a second value
            if pretty {
                let mut ser = sonic_rs::Serializer::with_formatter(w, sonic_rs::format::PrettyFormatter::default());
                g.serialize(&mut ser).map_err(|e| e.to_string())?;
                TWICE.with(|c| c.set(3));
                g.serialize(&mut ser).map_err(|e| e.to_string())
            } else {
                let mut ser = sonic_rs::Serializer::new(w);
                g.serialize(&mut ser).map_err(|e| e.to_string())?;
                TWICE.with(|c| c.set(3));
                g.serialize(&mut ser).map_err(|e| e.to_string())
            }
        }
        _ => {
            let r = if pretty { sonic_rs::to_writer_pretty(w, g) } else { sonic_rs::to_writer(w, g) };
            r.map_err(|e| e.to_string())
        }
    }
}

fn run_stack(stack: u32, g: &G, pretty: bool, plan: &FaultPlan, guard_fail: (Option<usize>, Option<usize>), cap: usize) -> Result<StackOutcome, Violation> {
    let o = match stack {
        0 => {
            trace::bump(C::stack_to_string);
            let r = libcall("to_string", || if pretty { sonic_rs::to_string_pretty(g) } else { sonic_rs::to_string(g) })?;
            match r {
                Ok(s) => StackOutcome { name: "to_string", result: Ok(()), delivered: s.into_bytes(), fault_during_call: false, fault_reached: false, protocol_violation: None, faultable: false },
                Err(e) => StackOutcome { name: "to_string", result: Err(e.to_string()), delivered: vec![], fault_during_call: false, fault_reached: false, protocol_violation: None, faultable: false },
            }
        }
        1 if draw(2) == 0 => {
            // an explicit Serializer over an owned Vec, bytes taken back with into_inner
            trace::bump(C::stack_vec);
            let (r, v) = libcall("Serializer::new/pretty + into_inner", || {
                if pretty {
                    let mut ser = sonic_rs::Serializer::with_formatter(Vec::<u8>::new(), sonic_rs::format::PrettyFormatter::default());
                    let r = g.serialize(&mut ser).map_err(|e| e.to_string());
                    (r, ser.into_inner())
                } else {
                    let mut ser = sonic_rs::Serializer::new(Vec::<u8>::new());
                    let r = g.serialize(&mut ser).map_err(|e| e.to_string());
                    (r, ser.into_inner())
                }
            })?;
            StackOutcome { name: "Serializer<Vec<u8>>::into_inner", result: r, delivered: v, fault_during_call: false, fault_reached: false, protocol_violation: None, faultable: false }
        }
        1 => {
            trace::bump(C::stack_vec_mut);
            let mut v: Vec<u8> = Vec::new();
            let r = libcall("to_writer(&mut Vec)", || ser_to(&mut v, g, pretty))?;
            StackOutcome { name: "&mut Vec<u8>", result: r, delivered: v, fault_during_call: false, fault_reached: false, protocol_violation: None, faultable: false }
        }
        2 => {
            trace::bump(C::stack_box_vec);
            let mut v: Box<Vec<u8>> = Box::new(Vec::with_capacity(draw(64) as usize));
            let r = libcall("to_writer(&mut Box<Vec>)", || ser_to(&mut v, g, pretty))?;
            StackOutcome { name: "&mut Box<Vec<u8>>", result: r, delivered: *v, fault_during_call: false, fault_reached: false, protocol_violation: None, faultable: false }
        }
        3 | 4 => {
            // a BytesMut that already holds data and has some spare capacity (allocated in library scope,
            // so it carries a tail canary: writing past its capacity is seen when it is freed)
            let prefix_len = *pick(&[0usize, 0, 1, 7, 28, 64]);
            let spare = *pick(&[0usize, 8, 40, 100, 128, 300, 1000]);
            let mut b = crate::heap::lib(|| BytesMut::with_capacity(prefix_len + spare));
            let prefix: Vec<u8> = (0..prefix_len).map(|k| b'#' + (k % 7) as u8).collect();
            crate::heap::lib(|| b.extend_from_slice(&prefix));
            let (r, name, all) = if stack == 3 {
                trace::bump(C::stack_bytesmut);
                let mut w = b.writer();
                let r = libcall("to_writer(Writer<BytesMut>)", || ser_to(&mut w, g, pretty))?;
                (r, "Writer<BytesMut>", libcall("into_inner", move || w.into_inner().to_vec())?)
            } else {
                trace::bump(C::stack_bytesmut_mut);
                let r = libcall("to_writer(Writer<&mut BytesMut>)", || ser_to((&mut b).writer(), g, pretty))?;
                (r, "Writer<&mut BytesMut>", libcall("to_vec", move || b.to_vec())?)
            };
            if !all.starts_with(&prefix) {
                return Err(Violation::new("ser/writer-clobbered-existing-bytes", format!("{}: the {} bytes already in the buffer were changed", name, prefix_len)));
            }
            StackOutcome { name, result: r, delivered: all[prefix_len..].to_vec(), fault_during_call: false, fault_reached: false, protocol_violation: None, faultable: false }
        }
        5 | 6 => {
            trace::bump(C::stack_buffered);
            let mut sink = FaultySink::new(plan.clone());
            let r = if stack == 5 {
                libcall("to_writer(BufferedWriter<sink>)", || ser_to(BufferedWriter::new(&mut sink), g, pretty))?
            } else {
                libcall("to_writer(Box<BufferedWriter<sink>>)", || ser_to(Box::new(BufferedWriter::new(&mut sink)), g, pretty))?
            };
            let reached = sink.fault_reached();
            StackOutcome { name: "BufferedWriter<FaultySink>", result: r, delivered: sink.accepted, fault_during_call: reached, fault_reached: reached, protocol_violation: None, faultable: true }
        }
        7 => {
            trace::bump(C::stack_iobuf_vec);
            let mut bw = io::BufWriter::with_capacity(cap, Vec::<u8>::new());
            let r = libcall("to_writer(io::BufWriter<Vec>)", || ser_to(&mut bw, g, pretty))?;
            let v = libcall("BufWriter::into_inner", move || bw.into_inner().map_err(|e| e.to_string()))?;
            StackOutcome { name: "io::BufWriter<Vec<u8>>", result: r, delivered: v.unwrap_or_default(), fault_during_call: false, fault_reached: false, protocol_violation: None, faultable: false }
        }
        8 => {
            trace::bump(C::stack_iobuf_buffered);
            let mut sink = FaultySink::new(plan.clone());
            let probe = sink.faults.clone();
            let (r, during);
            {
                let mut bw = io::BufWriter::with_capacity(cap, BufferedWriter::new(&mut sink));
                r = libcall("to_writer(io::BufWriter<BufferedWriter<sink>>)", || ser_to(&mut bw, g, pretty))?;
                during = probe.load(std::sync::atomic::Ordering::SeqCst) > 0;
                // the harness flushes what the BufWriter still holds; a fault hit only here is outside the call
                let _ = libcall("BufWriter::flush", || bw.flush())?;
                let _ = libcall("BufWriter drop", move || drop(bw.into_parts()))?;
            }
            let reached = sink.fault_reached();
            StackOutcome { name: "io::BufWriter<BufferedWriter<FaultySink>>", result: r, delivered: sink.accepted, fault_during_call: during, fault_reached: reached, protocol_violation: None, faultable: true }
        }
        9 | 10 => {
            trace::bump(C::stack_guard_window);
            let mut sink = FaultySink::new(plan.clone());
            let (r, pv, gerr);
            {
                let mut gw = GuardWindowWriter::new(&mut sink);
                gw.fail_reserve_at = guard_fail.0;
                gw.fail_flush_len_at = guard_fail.1;
                r = if stack == 9 {
                    libcall("to_writer(&mut GuardWindowWriter)", || ser_to(&mut gw, g, pretty))?
                } else {
                    libcall("to_writer(&mut &mut GuardWindowWriter)", || ser_to(&mut &mut gw, g, pretty))?
                };
                pv = gw.protocol_violation.take();
                gerr = gw.errors_returned > 0;
            }
            let reached = sink.fault_reached() || gerr;
            StackOutcome { name: "GuardWindowWriter<FaultySink>", result: r, delivered: sink.accepted, fault_during_call: reached, fault_reached: reached, protocol_violation: pv, faultable: true }
        }
        _ => {
            trace::bump(C::stack_iobuf_buffered);
            let mut sink = FaultySink::new(plan.clone());
            let (r, during, pv, gerr);
            {
                let mut gw = GuardWindowWriter::new(&mut sink);
                gw.fail_reserve_at = guard_fail.0;
                gw.fail_flush_len_at = guard_fail.1;
                let mut bw = io::BufWriter::with_capacity(cap, gw);
                r = libcall("to_writer(io::BufWriter<GuardWindowWriter>)", || ser_to(&mut bw, g, pretty))?;
                during = bw.get_ref().inner.fault_reached() || bw.get_ref().errors_returned > 0;
                let _ = libcall("BufWriter::flush", || bw.flush())?;
                pv = bw.get_mut().protocol_violation.take();
                gerr = bw.get_ref().errors_returned > 0;
                let _ = libcall("BufWriter drop", move || drop(bw.into_parts()))?;
            }
            let reached = sink.fault_reached() || gerr;
            StackOutcome { name: "io::BufWriter<GuardWindowWriter<FaultySink>>", result: r, delivered: sink.accepted, fault_during_call: during, fault_reached: reached, protocol_violation: pv, faultable: true }
        }
    };
    Ok(o)
}

/// info about the last base run, for fault enumeration (thorough tier)
pub static LAST_REF_LEN: std::sync::atomic::AtomicUsize = std::sync::atomic::AtomicUsize::new(0);

pub const FAULT_KINDS: u32 = 7;
pub const FAULT_POS_BOUND: u32 = 1 << 14;

pub fn run() -> SimResult {
    crate::sinks::reset_guard_slots();
    // the first four draws are the fault dimensions (the thorough tier enumerates them)
    let fkind = draw(FAULT_KINDS);
    let fpos = draw(FAULT_POS_BOUND) as usize;
    let short = [0u32, 0, 3, 8][draw(4) as usize];
    let eintr = [0u32, 0, 3, 8][draw(4) as usize];
    let stack = draw(N_STACKS);
    let pretty = draw(2) == 1;
    let cap = *pick(&[8192usize, 1, 8, 64, 3]);
    let kn = Knobs {
        classes: gen::GenCfg::draw_knobs().classes,
        // (page-spanning strings are for the native engine and its guard pages; under Miri they only cost time)
        max_str: (*pick(&[8u32, 40, 80, 200, 200, 200, 5000])).min(if cfg!(miri) { 200 } else { 5000 }),
        guarded: draw(4) != 0,
        near_page: draw(2) == 1,
        exotic: draw(2) == 1,
        bad_keys: draw(4) == 0,
        fail: draw(6) == 0,
        embed: draw(3) == 0,
    };
    let mut budget = *pick(&[3i32, 8, 20, 40]);
    let g = if chance(1, 30) {
        // a deep chain of single-member wrappers (indentation and closing state at depth)
        let depth = range(8, 70);
        let mut g = gen_g(&kn, 4, &mut 1);
        for d in 0..depth {
            g = match (d + draw(3)) % 6 {
                0 => G::Seq(vec![g], draw(2) == 1),
                1 => G::Map(vec![(K::Str(GStr::Heap(format!("k{}", d))), g)], draw(2) == 1),
                2 => G::NewtypeVariant(*pick(VARIANTS), Box::new(g)),
                3 => G::Struct(vec![(*pick(NAMES), g)]),
                4 => G::TupleVariant(*pick(VARIANTS), vec![g]),
                _ => G::StructVariant(*pick(VARIANTS), vec![(*pick(NAMES), g)]),
            };
        }
        g
    } else if chance(1, 8) {
        // a single long string: "every length 0..200 and beyond"
        let n = if chance(1, 4) && !cfg!(miri) { range(200, 5000) } else { range(0, 200) };
        G::Str(gen_gstr(&kn, gen::gen_string_len(kn.classes, n)))
    } else {
        gen_g(&kn, 0, &mut budget)
    };
    if pretty {
        trace::bump(C::pretty_runs);
    } else {
        trace::bump(C::compact_runs);
    }
    let exp = expect(&g);
    let gdesc = crate::oracle::truncate(&format!("{:?}", g));
    tr!("value {} pretty={} stack={}", gdesc, pretty, stack);

    // (1) fault-free reference serialization into a plain vector
    let reference = libcall("to_vec", || if pretty { sonic_rs::to_vec_pretty(&g) } else { sonic_rs::to_vec(&g) })?;
    let ref_out = match (&exp, reference) {
        (Err(why), Err(_)) => {
            trace::bump(C::ser_err_expected);
            tr!("expected error: {}", why);
            // also through the drawn stack: must be Err as well, never a panic
            let o = run_stack(stack, &g, pretty, &FaultPlan::none(), (None, None), cap)?;
            if o.result.is_ok() {
                return Err(Violation::new("ser/ok-on-unserializable", format!("{} returned Ok for a value that cannot be expressed ({}) ; value {}", o.name, why, gdesc)));
            }
            return Ok(());
        }
        (Err(why), Ok(bytes)) => {
            return Err(Violation::new(
                "ser/ok-on-unserializable",
                format!("to_vec returned Ok({:?}) although {}; value {}", crate::oracle::truncate(&String::from_utf8_lossy(&bytes)), why, gdesc),
            ))
        }
        (Ok(_), Err(e)) => return Err(Violation::new("ser/unexpected-error", format!("to_vec failed with {:?} on a serializable value {}", e.to_string(), gdesc))),
        (Ok(e), Ok(bytes)) => {
            trace::bump(C::ser_ok);
            trace::bump(C::oracle_compares);
            let want = render_expected(e, pretty);
            if let Err(why) = match_output(&bytes, &want) {
                return Err(Violation::new("ser/bytes-differ-fault-free", format!("to_vec{}: {} ; value {}", if pretty { "_pretty" } else { "" }, why, gdesc)));
            }
            let text = std::str::from_utf8(&bytes).unwrap();
            if let Err(pe) = refjson::parse(text) {
                return Err(Violation::new("ser/not-well-formed", format!("output is not well-formed JSON at byte {} ({}): {}", pe.pos, pe.msg, crate::oracle::truncate(text))));
            }
            // pretty differs from compact only by the prescribed whitespace
            if !has_raw(e) && chance(1, 3) {
                let other = libcall("to_vec(other mode)", || if pretty { sonic_rs::to_vec(&g) } else { sonic_rs::to_vec_pretty(&g) })?
                    .map_err(|er| Violation::new("ser/unexpected-error", format!("other mode failed: {}", er)))?;
                let (compact, prettyb) = if pretty { (other, bytes.clone()) } else { (bytes.clone(), other) };
                let re = refjson::reindent(std::str::from_utf8(&compact).unwrap_or(""));
                if re.as_bytes() != prettyb.as_slice() {
                    return Err(Violation::new(
                        "ser/pretty-not-reindented-compact",
                        format!("pretty output is not the compact output re-indented; compact {:?} pretty {:?}", crate::oracle::truncate(&String::from_utf8_lossy(&compact)), crate::oracle::truncate(&String::from_utf8_lossy(&prettyb))),
                    ));
                }
            }
            bytes
        }
    };
    // one run in six sends a second value (the same one) through the same writer: state a writer or a
    // serializer keeps between values must not leak into the next one
    let twice = if chance(1, 6) { 1 + draw(2) as u8 } else { 0 };
    LAST_REF_LEN.store(ref_out.len() * if twice > 0 { 2 } else { 1 }, std::sync::atomic::Ordering::SeqCst);

    // (2) the drawn writer stack under the drawn fault plan
    let l = ref_out.len() * if twice > 0 { 2 } else { 1 };
    let kinds = [io::ErrorKind::Other, io::ErrorKind::BrokenPipe, io::ErrorKind::WouldBlock];
    let mut guard_fail = (None, None);
    let permanent = match fkind {
        0 => Permanent::None,
        1 => Permanent::ErrAfterBytes(fpos % (l + 2), kinds[0]),
        2 => Permanent::ErrAfterBytes(fpos % (l + 2), kinds[1 + (fpos / (l + 2)) % 2]),
        3 => Permanent::ZeroAfterBytes(fpos % (l + 2)),
        4 => Permanent::ErrAtCall(fpos % 48, kinds[0]),
        5 => {
            guard_fail.0 = Some(fpos % 12);
            Permanent::None
        }
        _ => {
            guard_fail.1 = Some(fpos % 12);
            Permanent::None
        }
    };
    let plan = FaultPlan { permanent, short_write_1_in: short, eintr_1_in: eintr };
    tr!("plan {:?} short=1/{} eintr=1/{} guard_fail={:?} cap={}", plan.permanent, short, eintr, guard_fail, cap);
    TWICE.with(|c| c.set(twice));
    let o = run_stack(stack, &g, pretty, &plan, guard_fail, cap);
    let wrote_two = TWICE.with(|c| c.replace(0)) == 3;
    let o = o?;
    let ref_out = if wrote_two {
        tr!("two values through one writer (mode {})", twice);
        [ref_out.as_slice(), ref_out.as_slice()].concat()
    } else {
        ref_out
    };
    let l = ref_out.len();
    if let Some(pv) = &o.protocol_violation {
        return Err(Violation::new("ser/writer-protocol", format!("{}: {}", o.name, pv)));
    }
    tr!("stack {} -> {:?} delivered {} of {} bytes fault_during_call={} reached={}", o.name, o.result.as_ref().map_err(|e| e.as_str()), o.delivered.len(), l, o.fault_during_call, o.fault_reached);
    if !o.fault_reached {
        if o.faultable && (plan.permanent != Permanent::None || guard_fail != (None, None)) {
            trace::bump(C::fault_never_reached);
        }
        trace::bump(C::fault_free_runs);
        // fault-free class (transient faults must be invisible)
        if let Err(e) = &o.result {
            return Err(Violation::new("ser/unexpected-error", format!("{} failed with {:?} although no permanent fault was injected; value {}", o.name, e, gdesc)));
        }
        if o.delivered != ref_out {
            return Err(Violation::new(
                "ser/bytes-differ-between-writers",
                format!("{} delivered {:?} but to_vec gave {:?}; value {}", o.name, crate::oracle::truncate(&String::from_utf8_lossy(&o.delivered)), crate::oracle::truncate(&String::from_utf8_lossy(&ref_out)), gdesc),
            ));
        }
    } else {
        trace::bump(C::faulted_runs);
        trace::nontrivial();
        if !ref_out.starts_with(&o.delivered) {
            return Err(Violation::new(
                "ser/not-a-prefix-under-fault",
                format!("{}: bytes accepted by the sink before the fault are not a prefix of the correct output: {:?} vs {:?}", o.name, crate::oracle::truncate(&String::from_utf8_lossy(&o.delivered)), crate::oracle::truncate(&String::from_utf8_lossy(&ref_out))),
            ));
        }
        if o.fault_during_call && o.result.is_ok() {
            return Err(Violation::new("ser/writer-error-swallowed", format!("{}: the writer returned a permanent error during the call but to_writer returned Ok ({} of {} bytes delivered)", o.name, o.delivered.len(), l)));
        }
    }
    if short > 0 || eintr > 0 {
        // transient faults only count as exercised if the stack has a sink
    }
    Ok(())
}

/// Thorough tier: for a base run (given by its choices), all fault positions for each fault kind.
pub fn enumerate_faults(base: &[u32]) -> Vec<Vec<u32>> {
    let l = LAST_REF_LEN.load(std::sync::atomic::Ordering::SeqCst);
    let mut out = Vec::new();
    if base.len() < 5 {
        return out;
    }
    let stack = base[4];
    if !(5..N_STACKS).contains(&stack) || stack == 7 {
        return out; // no sink to fail
    }
    for kind in 1..FAULT_KINDS {
        let positions: usize = match kind {
            1 | 3 => l + 1,
            2 => 2 * (l + 2),
            4 => 48,
            _ => {
                if stack >= 9 {
                    12
                } else {
                    0
                }
            }
        };
        // every position for outputs up to 1.5 KB (the enumeration the check is named after); for the rare
        // page-spanning strings the first and last 400 positions and an even spread of 700 in between, so that
        // neither time nor memory grows with the square of the output length
        let all: Vec<usize> = if positions <= 1500 {
            (0..positions).collect()
        } else {
            let mut v: Vec<usize> = (0..400).collect();
            let mid = positions - 800;
            v.extend((0..700).map(|k| 400 + k * mid / 700));
            v.extend(positions - 400..positions);
            v.dedup();
            v
        };
        for p in all {
            let mut c = base.to_vec();
            c[0] = kind;
            c[1] = p as u32;
            out.push(c);
        }
    }
    out
}
