//! Reference JSON model, written from RFC 8259 (no sonic-rs or serde_json code): the oracle
//! side of every comparison.

use std::fmt::Write;

#[derive(Debug, Clone, PartialEq)]
pub enum J {
    Null,
    Bool(bool),
    /// number, kept as its literal text
    Num(String),
    Str(String),
    Arr(Vec<J>),
    /// members in order, duplicates preserved
    Obj(Vec<(String, J)>),
}

#[derive(Debug, Clone, Copy, PartialEq, Eq)]
pub enum Kind {
    Null,
    Bool,
    Num,
    Str,
    Arr,
    Obj,
}

impl J {
    pub fn kind(&self) -> Kind {
        match self {
            J::Null => Kind::Null,
            J::Bool(_) => Kind::Bool,
            J::Num(_) => Kind::Num,
            J::Str(_) => Kind::Str,
            J::Arr(_) => Kind::Arr,
            J::Obj(_) => Kind::Obj,
        }
    }
    pub fn get_key(&self, k: &str) -> Option<&J> {
        match self {
            J::Obj(m) => m.iter().find(|(kk, _)| kk == k).map(|(_, v)| v),
            _ => None,
        }
    }
    pub fn get_key_mut(&mut self, k: &str) -> Option<&mut J> {
        match self {
            J::Obj(m) => m.iter_mut().find(|(kk, _)| kk == k).map(|(_, v)| v),
            _ => None,
        }
    }
    pub fn get_idx(&self, i: usize) -> Option<&J> {
        match self {
            J::Arr(a) => a.get(i),
            _ => None,
        }
    }
    pub fn get_idx_mut(&mut self, i: usize) -> Option<&mut J> {
        match self {
            J::Arr(a) => a.get_mut(i),
            _ => None,
        }
    }
    pub fn node_count(&self) -> usize {
        match self {
            J::Arr(a) => 1 + a.iter().map(|x| x.node_count()).sum::<usize>(),
            J::Obj(m) => 1 + m.iter().map(|(_, x)| 1 + x.node_count()).sum::<usize>(),
            _ => 1,
        }
    }
    /// structural equality with numbers compared by value class and objects as unordered maps
    /// (last duplicate wins is NOT applied: duplicate-free documents expected)
    pub fn sem_eq(&self, other: &J) -> bool {
        match (self, other) {
            (J::Null, J::Null) => true,
            (J::Bool(a), J::Bool(b)) => a == b,
            (J::Num(a), J::Num(b)) => num_eq(a, b),
            (J::Str(a), J::Str(b)) => a == b,
            (J::Arr(a), J::Arr(b)) => a.len() == b.len() && a.iter().zip(b).all(|(x, y)| x.sem_eq(y)),
            (J::Obj(a), J::Obj(b)) => {
                // repeated member names (a parsed, never-mutated object): order matters, compare in sequence
                let dup = |m: &Vec<(String, J)>| m.iter().enumerate().any(|(i, (k, _))| m.iter().position(|(kk, _)| kk == k) != Some(i));
                if dup(a) && dup(b) {
                    return a.len() == b.len() && a.iter().zip(b).all(|((k, v), (kk, w))| k == kk && v.sem_eq(w));
                }
                a.len() == b.len()
                    && a.iter().all(|(k, v)| {
                        let mut it = b.iter().filter(|(kk, _)| kk == k);
                        match (it.next(), it.next()) {
                            (Some((_, w)), None) => v.sem_eq(w),
                            _ => false,
                        }
                    })
            }
            _ => false,
        }
    }
    /// key-sorted canonical rendering (for logs and hashing; numbers by canonical value)
    pub fn canon(&self) -> String {
        let mut s = String::new();
        self.canon_into(&mut s);
        s
    }
    fn canon_into(&self, out: &mut String) {
        match self {
            J::Null => out.push_str("null"),
            J::Bool(b) => out.push_str(if *b { "true" } else { "false" }),
            J::Num(n) => out.push_str(&num_canon(n)),
            J::Str(s) => write_escaped(out, s),
            J::Arr(a) => {
                out.push('[');
                for (i, x) in a.iter().enumerate() {
                    if i > 0 {
                        out.push(',');
                    }
                    x.canon_into(out);
                }
                out.push(']');
            }
            J::Obj(m) => {
                let mut idx: Vec<usize> = (0..m.len()).collect();
                idx.sort_by(|&a, &b| m[a].0.cmp(&m[b].0));
                out.push('{');
                for (i, &k) in idx.iter().enumerate() {
                    if i > 0 {
                        out.push(',');
                    }
                    write_escaped(out, &m[k].0);
                    out.push(':');
                    m[k].1.canon_into(out);
                }
                out.push('}');
            }
        }
    }
}

#[derive(Debug, Clone, Copy, PartialEq)]
pub enum NumVal {
    U(u64),
    I(i64),
    F(f64),
}

/// Number semantics by Rust's own parsers: an integer literal (no '.', 'e', 'E') that fits
/// u64 / i64 is that integer; everything else is the f64 nearest to the literal.
pub fn num_val(lit: &str) -> NumVal {
    let is_int = !lit.contains(['.', 'e', 'E']);
    if is_int {
        if let Ok(u) = lit.parse::<u64>() {
            if lit.starts_with('-') {
                // "-0"
                return NumVal::F(-0.0);
            }
            return NumVal::U(u);
        }
        if let Ok(i) = lit.parse::<i64>() {
            if i == 0 && lit.starts_with('-') {
                return NumVal::F(-0.0);
            }
            return NumVal::I(i);
        }
    }
    NumVal::F(lit.parse::<f64>().unwrap_or(f64::NAN))
}

pub fn num_eq(a: &str, b: &str) -> bool {
    if a == b {
        return true;
    }
    match (num_val(a), num_val(b)) {
        (NumVal::U(x), NumVal::U(y)) => x == y,
        (NumVal::I(x), NumVal::I(y)) => x == y,
        (NumVal::U(x), NumVal::I(y)) | (NumVal::I(y), NumVal::U(x)) => y >= 0 && x == y as u64,
        (NumVal::F(x), NumVal::F(y)) => x == y || (x.is_nan() && y.is_nan()),
        // integer vs float spelling of the same value (e.g. 1 vs 1.0) are different data-model values
        _ => false,
    }
}

pub fn num_canon(lit: &str) -> String {
    match num_val(lit) {
        NumVal::U(u) => format!("{}", u),
        NumVal::I(i) => format!("{}", i),
        NumVal::F(f) => format!("{:?}f", f),
    }
}

/// Is `s` a number token by the RFC 8259 grammar?
pub fn is_number_token(s: &str) -> bool {
    let b = s.as_bytes();
    let mut i = 0;
    if i < b.len() && b[i] == b'-' {
        i += 1;
    }
    if i >= b.len() {
        return false;
    }
    if b[i] == b'0' {
        i += 1;
    } else if b[i].is_ascii_digit() {
        while i < b.len() && b[i].is_ascii_digit() {
            i += 1;
        }
    } else {
        return false;
    }
    if i < b.len() && b[i] == b'.' {
        i += 1;
        let st = i;
        while i < b.len() && b[i].is_ascii_digit() {
            i += 1;
        }
        if i == st {
            return false;
        }
    }
    if i < b.len() && (b[i] == b'e' || b[i] == b'E') {
        i += 1;
        if i < b.len() && (b[i] == b'+' || b[i] == b'-') {
            i += 1;
        }
        let st = i;
        while i < b.len() && b[i].is_ascii_digit() {
            i += 1;
        }
        if i == st {
            return false;
        }
    }
    i == b.len()
}

// ------------------------------------------------------------------------------------------
// specification serializer

/// Escape exactly as specified: `"`, `\` and C0 controls; short forms for \b \t \n \f \r,
/// `\u00xx` (lower-case hex) for the other controls; everything else verbatim.
pub fn write_escaped(out: &mut String, s: &str) {
    out.push('"');
    for c in s.chars() {
        match c {
            '"' => out.push_str("\\\""),
            '\\' => out.push_str("\\\\"),
            '\u{8}' => out.push_str("\\b"),
            '\t' => out.push_str("\\t"),
            '\n' => out.push_str("\\n"),
            '\u{c}' => out.push_str("\\f"),
            '\r' => out.push_str("\\r"),
            c if (c as u32) < 0x20 => {
                let _ = write!(out, "\\u{:04x}", c as u32);
            }
            c => out.push(c),
        }
    }
    out.push('"');
}

pub fn to_compact(j: &J) -> String {
    let mut s = String::new();
    compact_into(j, &mut s);
    s
}

fn compact_into(j: &J, out: &mut String) {
    match j {
        J::Null => out.push_str("null"),
        J::Bool(b) => out.push_str(if *b { "true" } else { "false" }),
        J::Num(n) => out.push_str(n),
        J::Str(s) => write_escaped(out, s),
        J::Arr(a) => {
            out.push('[');
            for (i, x) in a.iter().enumerate() {
                if i > 0 {
                    out.push(',');
                }
                compact_into(x, out);
            }
            out.push(']');
        }
        J::Obj(m) => {
            out.push('{');
            for (i, (k, v)) in m.iter().enumerate() {
                if i > 0 {
                    out.push(',');
                }
                write_escaped(out, k);
                out.push(':');
                compact_into(v, out);
            }
            out.push('}');
        }
    }
}

pub fn to_pretty(j: &J) -> String {
    let mut s = String::new();
    pretty_into(j, &mut s, 0);
    s
}

fn indent(out: &mut String, n: usize) {
    for _ in 0..n {
        out.push_str("  ");
    }
}

fn pretty_into(j: &J, out: &mut String, depth: usize) {
    match j {
        J::Arr(a) if !a.is_empty() => {
            out.push('[');
            for (i, x) in a.iter().enumerate() {
                out.push_str(if i > 0 { ",\n" } else { "\n" });
                indent(out, depth + 1);
                pretty_into(x, out, depth + 1);
            }
            out.push('\n');
            indent(out, depth);
            out.push(']');
        }
        J::Obj(m) if !m.is_empty() => {
            out.push('{');
            for (i, (k, v)) in m.iter().enumerate() {
                out.push_str(if i > 0 { ",\n" } else { "\n" });
                indent(out, depth + 1);
                write_escaped(out, k);
                out.push_str(": ");
                pretty_into(v, out, depth + 1);
            }
            out.push('\n');
            indent(out, depth);
            out.push('}');
        }
        other => compact_into(other, out),
    }
}

// ------------------------------------------------------------------------------------------
// strict parser

pub struct ParseError {
    pub pos: usize,
    pub msg: &'static str,
}

pub fn parse(text: &str) -> Result<J, ParseError> {
    let mut p = P { b: text.as_bytes(), s: text, i: 0 };
    p.ws();
    let v = p.value(0)?;
    p.ws();
    if p.i != p.b.len() {
        return Err(ParseError { pos: p.i, msg: "trailing characters" });
    }
    Ok(v)
}

/// Parse one value at the start of `text` (after optional whitespace); returns it and the number
/// of bytes consumed.
pub fn parse_prefix(text: &str) -> Result<(J, usize), ParseError> {
    let mut p = P { b: text.as_bytes(), s: text, i: 0 };
    p.ws();
    let v = p.value(0)?;
    Ok((v, p.i))
}

struct P<'a> {
    b: &'a [u8],
    s: &'a str,
    i: usize,
}

impl<'a> P<'a> {
    fn err<T>(&self, msg: &'static str) -> Result<T, ParseError> {
        Err(ParseError { pos: self.i, msg })
    }
    fn ws(&mut self) {
        while self.i < self.b.len() && matches!(self.b[self.i], b' ' | b'\t' | b'\n' | b'\r') {
            self.i += 1;
        }
    }
    fn value(&mut self, depth: usize) -> Result<J, ParseError> {
        if depth > 512 {
            return self.err("too deep");
        }
        match self.b.get(self.i) {
            None => self.err("eof"),
            Some(b'n') => self.lit("null", J::Null),
            Some(b't') => self.lit("true", J::Bool(true)),
            Some(b'f') => self.lit("false", J::Bool(false)),
            Some(b'"') => Ok(J::Str(self.string()?)),
            Some(b'[') => {
                self.i += 1;
                let mut v = Vec::new();
                self.ws();
                if self.b.get(self.i) == Some(&b']') {
                    self.i += 1;
                    return Ok(J::Arr(v));
                }
                loop {
                    self.ws();
                    v.push(self.value(depth + 1)?);
                    self.ws();
                    match self.b.get(self.i) {
                        Some(b',') => self.i += 1,
                        Some(b']') => {
                            self.i += 1;
                            return Ok(J::Arr(v));
                        }
                        _ => return self.err("expected , or ]"),
                    }
                }
            }
            Some(b'{') => {
                self.i += 1;
                let mut m = Vec::new();
                self.ws();
                if self.b.get(self.i) == Some(&b'}') {
                    self.i += 1;
                    return Ok(J::Obj(m));
                }
                loop {
                    self.ws();
                    if self.b.get(self.i) != Some(&b'"') {
                        return self.err("expected key");
                    }
                    let k = self.string()?;
                    self.ws();
                    if self.b.get(self.i) != Some(&b':') {
                        return self.err("expected :");
                    }
                    self.i += 1;
                    self.ws();
                    let v = self.value(depth + 1)?;
                    m.push((k, v));
                    self.ws();
                    match self.b.get(self.i) {
                        Some(b',') => self.i += 1,
                        Some(b'}') => {
                            self.i += 1;
                            return Ok(J::Obj(m));
                        }
                        _ => return self.err("expected , or }"),
                    }
                }
            }
            Some(c) if *c == b'-' || c.is_ascii_digit() => {
                let st = self.i;
                while self.i < self.b.len() && matches!(self.b[self.i], b'-' | b'+' | b'.' | b'e' | b'E' | b'0'..=b'9') {
                    self.i += 1;
                }
                let tok = &self.s[st..self.i];
                if !is_number_token(tok) {
                    self.i = st;
                    return self.err("bad number");
                }
                Ok(J::Num(tok.to_string()))
            }
            Some(_) => self.err("unexpected character"),
        }
    }
    fn lit(&mut self, word: &'static str, v: J) -> Result<J, ParseError> {
        if self.b[self.i..].starts_with(word.as_bytes()) {
            self.i += word.len();
            Ok(v)
        } else {
            self.err("bad literal")
        }
    }
    fn hex4(&mut self) -> Result<u32, ParseError> {
        if self.i + 4 > self.b.len() {
            return self.err("eof in \\u");
        }
        let mut v = 0u32;
        for k in 0..4 {
            let d = (self.b[self.i + k] as char).to_digit(16);
            match d {
                Some(d) => v = v * 16 + d,
                None => return self.err("bad hex"),
            }
        }
        self.i += 4;
        Ok(v)
    }
    fn string(&mut self) -> Result<String, ParseError> {
        self.i += 1; // opening quote
        let mut out = String::new();
        loop {
            let Some(&c) = self.b.get(self.i) else { return self.err("eof in string") };
            match c {
                b'"' => {
                    self.i += 1;
                    return Ok(out);
                }
                b'\\' => {
                    self.i += 1;
                    let Some(&e) = self.b.get(self.i) else { return self.err("eof in escape") };
                    self.i += 1;
                    match e {
                        b'"' => out.push('"'),
                        b'\\' => out.push('\\'),
                        b'/' => out.push('/'),
                        b'b' => out.push('\u{8}'),
                        b'f' => out.push('\u{c}'),
                        b'n' => out.push('\n'),
                        b'r' => out.push('\r'),
                        b't' => out.push('\t'),
                        b'u' => {
                            let hi = self.hex4()?;
                            if (0xD800..0xDC00).contains(&hi) {
                                if self.b.get(self.i) == Some(&b'\\') && self.b.get(self.i + 1) == Some(&b'u') {
                                    self.i += 2;
                                    let lo = self.hex4()?;
                                    if !(0xDC00..0xE000).contains(&lo) {
                                        return self.err("bad low surrogate");
                                    }
                                    let cp = 0x10000 + ((hi - 0xD800) << 10) + (lo - 0xDC00);
                                    out.push(char::from_u32(cp).unwrap());
                                } else {
                                    return self.err("lone high surrogate");
                                }
                            } else if (0xDC00..0xE000).contains(&hi) {
                                return self.err("lone low surrogate");
                            } else {
                                out.push(char::from_u32(hi).unwrap());
                            }
                        }
                        _ => return self.err("bad escape"),
                    }
                }
                c if c < 0x20 => return self.err("control character in string"),
                _ => {
                    // copy one UTF-8 scalar (input is a &str, so it is valid)
                    let ch = self.s[self.i..].chars().next().unwrap();
                    out.push(ch);
                    self.i += ch.len_utf8();
                }
            }
        }
    }
}

/// Re-indent compact JSON text to the prescribed pretty form (two spaces, ": " after keys,
/// empty containers stay closed). Works on tokens, independent of the J model.
pub fn reindent(compact: &str) -> String {
    let b = compact.as_bytes();
    let mut out = String::with_capacity(compact.len() * 2);
    let mut depth = 0usize;
    let mut i = 0;
    while i < b.len() {
        match b[i] {
            b'"' => {
                let st = i;
                i += 1;
                while i < b.len() {
                    if b[i] == b'\\' {
                        i += 2;
                        continue;
                    }
                    if b[i] == b'"' {
                        i += 1;
                        break;
                    }
                    i += 1;
                }
                out.push_str(&compact[st..i]);
            }
            c @ (b'[' | b'{') => {
                let close = if c == b'[' { b']' } else { b'}' };
                if b.get(i + 1) == Some(&close) {
                    out.push(c as char);
                    out.push(close as char);
                    i += 2;
                } else {
                    out.push(c as char);
                    depth += 1;
                    out.push('\n');
                    indent(&mut out, depth);
                    i += 1;
                }
            }
            c @ (b']' | b'}') => {
                depth -= 1;
                out.push('\n');
                indent(&mut out, depth);
                out.push(c as char);
                i += 1;
            }
            b',' => {
                out.push_str(",\n");
                indent(&mut out, depth);
                i += 1;
            }
            b':' => {
                out.push_str(": ");
                i += 1;
            }
            c => {
                out.push(c as char);
                i += 1;
            }
        }
    }
    out
}

pub fn self_test() -> Result<(), String> {
    let corpus = [
        r#"null"#,
        r#"[1,-2,3.5e10,"a\n\u00e9\ud83d\ude00",{"k":[],"":{}},true,false]"#,
        r#"{"a":{"b":{"c":[[],[[]],{}]}},"\"":"\\"}"#,
        "\"\\u0001\\u001f\\b\\f\\r\\t \u{7f}\u{80}\u{2028}\"",
    ];
    for c in corpus {
        let j = parse(c).map_err(|e| format!("refjson self-test: parse failed at {}: {} on {}", e.pos, e.msg, c))?;
        let s = to_compact(&j);
        let j2 = parse(&s).map_err(|_| "refjson self-test: reparse failed".to_string())?;
        if j != j2 {
            return Err(format!("refjson self-test: roundtrip differs on {}", c));
        }
        let p = to_pretty(&j);
        if reindent(&s) != p {
            return Err(format!("refjson self-test: reindent != pretty on {}", c));
        }
        let j3 = parse(&p).map_err(|_| "refjson self-test: pretty reparse failed".to_string())?;
        if j != j3 {
            return Err("refjson self-test: pretty roundtrip differs".into());
        }
    }
    for bad in ["", "[1,]", "{\"a\"}", "01", "1.", "\"\\x\"", "\"\u{1}\"", "[1 2]", "tru", "\"\\ud800\"", "-", "1e", "{\"a\":1,}"] {
        if parse(bad).is_ok() {
            return Err(format!("refjson self-test: accepted {:?}", bad));
        }
    }
    if to_compact(&J::Str("\u{0}\u{1f}\"\\/\u{7f}é".into())) != "\"\\u0000\\u001f\\\"\\\\/\u{7f}é\"" {
        return Err("refjson self-test: escaping".into());
    }
    Ok(())
}
