//! Model-first generators: draw a `J` (expected value known by construction), then render it
//! to text with drawn whitespace, escape style and number spelling.

use crate::choice::{chance, draw, pick, range};
use crate::refjson::J;

#[derive(Clone, Debug)]
pub struct GenCfg {
    pub max_depth: u32,
    pub max_width: u32,
    pub max_str: u32,
    /// bit set of enabled character classes
    pub classes: u32,
    pub node_budget: u32,
}

pub const CL_PLAIN: u32 = 1;
pub const CL_QUOTE: u32 = 2;
pub const CL_CTRL: u32 = 4;
pub const CL_U2: u32 = 8;
pub const CL_U3: u32 = 16;
pub const CL_U4: u32 = 32;
/// objects may repeat a member name (well-formed JSON; lookups by key then mean the first such member)
pub const CL_DUPKEY: u32 = 128;
pub const CL_ODD: u32 = 64; // '/', DEL, U+0080, U+2028, U+FFFD ...

impl GenCfg {
    /// swarm-style: draw the knobs of this run
    pub fn draw_knobs() -> GenCfg {
        let classes = match draw(6) {
            0 => CL_PLAIN,
            1 => CL_PLAIN | CL_QUOTE,
            2 => CL_PLAIN | CL_QUOTE | CL_CTRL,
            3 => CL_PLAIN | CL_U2 | CL_U3 | CL_U4,
            4 => CL_PLAIN | CL_QUOTE | CL_CTRL | CL_U2 | CL_U3 | CL_U4 | CL_ODD,
            _ => 1 + draw(127),
        };
        GenCfg {
            max_depth: range(0, 4),
            max_width: range(1, 6),
            max_str: *pick(&[4, 16, 40, 80, 200]),
            classes: classes | CL_PLAIN,
            node_budget: *pick(&[6, 12, 30, 60]),
        }
    }
    pub fn small() -> GenCfg {
        GenCfg { max_depth: 2, max_width: 3, max_str: 12, classes: CL_PLAIN | CL_QUOTE | CL_U2, node_budget: 10 }
    }
}

pub fn gen_char(classes: u32) -> char {
    let avail: Vec<u32> = (0..7).filter(|b| classes & (1 << b) != 0).collect();
    let cl = 1u32 << *pick(&avail);
    match cl {
        CL_PLAIN => *pick(&['a', 'b', 'z', 'A', '0', '9', ' ', '_', '-', '.', ':', ',', '{', '[', 'x']),
        CL_QUOTE => *pick(&['"', '\\']),
        CL_CTRL => char::from_u32(draw(0x20)).unwrap(),
        CL_U2 => *pick(&['é', 'ß', '¢', 'Ω', '\u{80}', '\u{7ff}']),
        CL_U3 => *pick(&['€', '中', '☺', '\u{800}', '\u{ffff}', '\u{fffd}']),
        CL_U4 => *pick(&['😀', '𝄞', '\u{10000}', '\u{10ffff}']),
        _ => *pick(&['/', '\u{7f}', '\u{80}', '\u{2028}', '\u{2029}', '\u{feff}', '\'', '<', '&']),
    }
}

pub fn gen_len(max: u32) -> u32 {
    if max == 0 {
        return 0;
    }
    let v = match draw(8) {
        0 => 0,
        1 => range(1, 3),
        2 => range(4, 15),
        3 => *pick(&[15, 16, 17, 31, 32, 33]),
        4 => *pick(&[47, 48, 63, 64, 65, 95, 96, 97]),
        5 => range(16, 64),
        6 => range(64, 200),
        _ => range(0, 40),
    };
    // "and beyond": when the run allows long strings, now and then one that spans pages
    if max > 200 && chance(1, 6) {
        return (*pick(&[255u32, 256, 257, 1000, 4095, 4096, 4097, 5000])).min(max);
    }
    v.min(max)
}

pub fn gen_string(cfg: &GenCfg) -> String {
    if cfg.max_str >= 40 && cfg.classes & (CL_QUOTE | CL_CTRL) != 0 && chance(1, 10) {
        return gen_edge_string(cfg.classes);
    }
    let n = gen_len(cfg.max_str);
    gen_string_len(cfg.classes, n)
}

/// A plain string with exactly one character that needs escaping, placed at the edge of a
/// 32-byte block (as seen from the start of the string or from its opening quote), and a short
/// tail: the shape on which block-wise scanners go wrong.
pub fn gen_edge_string(classes: u32) -> String {
    let block = *pick(&[32u32, 64, 96]);
    let pos = (block as i64 + *pick(&[-3i64, -2, -1, 0, 1])).max(0) as usize;
    let tail = draw(12) as usize;
    let special = if classes & CL_CTRL != 0 && chance(1, 3) { *pick(&['\n', '\t', '\u{1}']) } else { *pick(&['"', '\\']) };
    let mut s = String::new();
    for _ in 0..pos {
        s.push(*pick(&['a', 'x', ' ', '0']));
    }
    s.push(special);
    for _ in 0..tail {
        s.push('a');
    }
    s
}

pub fn gen_string_len(classes: u32, n: u32) -> String {
    let mut s = String::new();
    // mostly plain with occasional specials, or dense specials
    let dense = chance(1, 4);
    for _ in 0..n {
        let c = if dense || chance(1, 6) { gen_char(classes) } else { gen_char(CL_PLAIN) };
        s.push(c);
    }
    s
}

// short keys, keys that share a prefix or differ only at the end, keys longer than 8 / 16 / 32 bytes, and
// (in the later part, used only when the run's character classes allow) keys that need escaping
const KEY_POOL: &[&str] = &[
    "a", "b", "c", "k", "key", "id", "x", "y", "name", "v", "", "0",
    "user_id", "user_name", "user", "keys", "keyring", "prefix_aaaaaaaaaaaaaaaa1", "prefix_aaaaaaaaaaaaaaaa2",
    "a_key_that_is_longer_than_thirty_two_bytes_x", "a_key_that_is_longer_than_thirty_two_bytes_y",
    "a b", "\"q\"", "é", "k\n",
];

pub fn gen_key(cfg: &GenCfg) -> String {
    if chance(1, 8) {
        let mut c = cfg.clone();
        c.max_str = c.max_str.min(40);
        gen_string(&c)
    } else {
        let lim = if cfg.classes & (CL_QUOTE | CL_CTRL | CL_U2) != 0 { KEY_POOL.len() } else { KEY_POOL.len() - 4 };
        KEY_POOL[draw(lim as u32) as usize].to_string()
    }
}

/// number literals whose classification is unambiguous
/// a number literal straight from the RFC 8259 grammar (finite, moderate exponent)
pub fn gen_number_grammar() -> String {
    let mut s = String::new();
    if chance(1, 3) {
        s.push('-');
    }
    // now and then a digit run longer than the skippers' 32-byte blocks
    let long = chance(1, 12);
    let int_digits = if long { *pick(&[29u32, 31, 32, 33, 40, 70]) } else { *pick(&[1u32, 1, 2, 3, 5, 9, 15]) };
    if int_digits == 1 && chance(1, 3) {
        s.push('0');
    } else {
        s.push(char::from(b'1' + draw(9) as u8));
        for _ in 1..int_digits {
            s.push(char::from(b'0' + draw(10) as u8));
        }
    }
    let frac = chance(1, 2);
    if frac {
        s.push('.');
        for _ in 0..(if chance(1, 12) { *pick(&[28u32, 30, 31, 32, 33, 64]) } else { *pick(&[1u32, 1, 2, 3, 6, 12]) }) {
            s.push(char::from(b'0' + draw(10) as u8));
        }
    }
    if chance(1, 2) || (!frac && s.trim_start_matches('-') == "0") {
        s.push(if draw(2) == 0 { 'e' } else { 'E' });
        match draw(3) {
            0 => {}
            1 => s.push('+'),
            _ => s.push('-'),
        }
        s.push_str(&format!("{}", draw(25)));
        if chance(1, 4) {
            s.insert(s.len() - 1, '0'); // a leading zero in the exponent is allowed
        }
    }
    if s == "-0" {
        s.push_str(".0");
    }
    s
}

pub fn gen_number() -> String {
    if chance(1, 4) {
        return gen_number_grammar();
    }
    match draw(10) {
        0 => "0".into(),
        1 => format!("{}", draw(100)),
        2 => format!("-{}", 1 + draw(1000)),
        3 => format!("{}", (draw(u32::MAX) as u64) * 1000 + draw(1000) as u64),
        4 => pick(&["18446744073709551615", "9223372036854775807", "9223372036854775808", "-9223372036854775808", "4294967296", "-2147483649"]).to_string(),
        5 => format!("{}.{}", draw(1000), 1 + draw(99)),
        6 => format!("-{}.{}", draw(100), pick(&["5", "25", "125", "75"])),
        7 => format!("{}e{}", 1 + draw(9), draw(20)),
        8 => pick(&["1.5E+3", "2.5e-3", "1e0", "0.0", "0.5", "1E2", "123.456e2", "1.0", "100.0e-2"]).to_string(),
        _ => format!("{}", draw(10)),
    }
}

pub fn gen_scalar(cfg: &GenCfg) -> J {
    match draw(6) {
        0 => J::Null,
        1 => J::Bool(draw(2) == 1),
        2 | 3 => J::Num(gen_number()),
        _ => J::Str(gen_string(cfg)),
    }
}

pub fn gen_j(cfg: &GenCfg) -> J {
    let mut budget = cfg.node_budget as i32;
    gen_j_at(cfg, 0, &mut budget, false)
}

pub fn gen_container(cfg: &GenCfg) -> J {
    let mut budget = cfg.node_budget as i32;
    gen_j_at(cfg, 0, &mut budget, true)
}

fn gen_j_at(cfg: &GenCfg, depth: u32, budget: &mut i32, force_container: bool) -> J {
    *budget -= 1;
    let container = force_container || (depth < cfg.max_depth && *budget > 0 && chance(2, 5));
    if !container {
        return gen_scalar(cfg);
    }
    let n = draw(cfg.max_width + 1);
    if draw(2) == 0 {
        let mut v = Vec::new();
        for _ in 0..n {
            if *budget <= 0 {
                break;
            }
            v.push(gen_j_at(cfg, depth + 1, budget, false));
        }
        J::Arr(v)
    } else {
        let mut m: Vec<(String, J)> = Vec::new();
        for _ in 0..n {
            if *budget <= 0 {
                break;
            }
            let k = gen_key(cfg);
            if m.iter().any(|(kk, _)| *kk == k) && (cfg.classes & CL_DUPKEY == 0 || chance(1, 2)) {
                continue;
            }
            m.push((k, gen_j_at(cfg, depth + 1, budget, false)));
        }
        J::Obj(m)
    }
}

#[derive(Clone, Debug)]
pub struct Style {
    /// 0 = none, 1 = sparse, 2 = heavy
    pub ws: u32,
    /// 0 = minimal escapes (spec form), 1 = mixed, 2 = escape-happy
    pub esc: u32,
}

impl Style {
    pub fn draw_knobs() -> Style {
        Style { ws: draw(3), esc: draw(3) }
    }
    pub fn plain() -> Style {
        Style { ws: 0, esc: 0 }
    }
}

fn ws(out: &mut String, st: &Style) {
    if st.ws == 0 {
        return;
    }
    let n = if st.ws == 1 { if chance(1, 3) { 1 } else { 0 } } else { draw(4) };
    for _ in 0..n {
        out.push(*pick(&[' ', ' ', '\n', '\t', '\r']));
    }
}

pub fn render_string(out: &mut String, s: &str, st: &Style) {
    out.push('"');
    for c in s.chars() {
        let must = c == '"' || c == '\\' || (c as u32) < 0x20;
        let fancy = st.esc == 2 && chance(1, 3) || st.esc == 1 && chance(1, 10);
        if !must && !fancy {
            out.push(c);
            continue;
        }
        let short = match c {
            '"' => Some("\\\""),
            '\\' => Some("\\\\"),
            '/' => Some("\\/"),
            '\u{8}' => Some("\\b"),
            '\u{c}' => Some("\\f"),
            '\n' => Some("\\n"),
            '\r' => Some("\\r"),
            '\t' => Some("\\t"),
            _ => None,
        };
        if let Some(sh) = short {
            if st.esc == 0 || draw(3) != 0 {
                out.push_str(sh);
                continue;
            }
        }
        let upper = st.esc != 0 && draw(2) == 1;
        let mut buf = [0u16; 2];
        for u in c.encode_utf16(&mut buf) {
            if upper {
                out.push_str(&format!("\\u{:04X}", u));
            } else {
                out.push_str(&format!("\\u{:04x}", u));
            }
        }
    }
    out.push('"');
}

pub fn render(j: &J, st: &Style) -> String {
    let mut s = String::new();
    render_into(j, st, &mut s);
    s
}

pub fn render_into(j: &J, st: &Style, out: &mut String) {
    match j {
        J::Null => out.push_str("null"),
        J::Bool(b) => out.push_str(if *b { "true" } else { "false" }),
        J::Num(n) => out.push_str(n),
        J::Str(s) => render_string(out, s, st),
        J::Arr(a) => {
            out.push('[');
            ws(out, st);
            for (i, x) in a.iter().enumerate() {
                if i > 0 {
                    out.push(',');
                    ws(out, st);
                }
                render_into(x, st, out);
                ws(out, st);
            }
            out.push(']');
        }
        J::Obj(m) => {
            out.push('{');
            ws(out, st);
            for (i, (k, v)) in m.iter().enumerate() {
                if i > 0 {
                    out.push(',');
                    ws(out, st);
                }
                render_string(out, k, st);
                ws(out, st);
                out.push(':');
                ws(out, st);
                render_into(v, st, out);
                ws(out, st);
            }
            out.push('}');
        }
    }
}

/// all paths (as key/index steps) to nodes of `j`, root first
#[derive(Clone, Debug, PartialEq)]
pub enum Step {
    Key(String),
    Idx(usize),
}

pub fn all_paths(j: &J) -> Vec<Vec<Step>> {
    let mut out = vec![vec![]];
    fn rec(j: &J, cur: &mut Vec<Step>, out: &mut Vec<Vec<Step>>) {
        match j {
            J::Arr(a) => {
                for (i, x) in a.iter().enumerate() {
                    cur.push(Step::Idx(i));
                    out.push(cur.clone());
                    rec(x, cur, out);
                    cur.pop();
                }
            }
            J::Obj(m) => {
                for (i, (k, x)) in m.iter().enumerate() {
                    // a member shadowed by an earlier one of the same name cannot be addressed by key
                    if m.iter().position(|(kk, _)| kk == k) != Some(i) {
                        continue;
                    }
                    cur.push(Step::Key(k.clone()));
                    out.push(cur.clone());
                    rec(x, cur, out);
                    cur.pop();
                }
            }
            _ => {}
        }
    }
    rec(j, &mut vec![], &mut out);
    out
}

pub fn at_path<'a>(j: &'a J, path: &[Step]) -> Option<&'a J> {
    let mut cur = j;
    for s in path {
        cur = match s {
            Step::Key(k) => cur.get_key(k)?,
            Step::Idx(i) => cur.get_idx(*i)?,
        };
    }
    Some(cur)
}

pub fn at_path_mut<'a>(j: &'a mut J, path: &[Step]) -> Option<&'a mut J> {
    let mut cur = j;
    for s in path {
        cur = match s {
            Step::Key(k) => cur.get_key_mut(k)?,
            Step::Idx(i) => cur.get_idx_mut(*i)?,
        };
    }
    Some(cur)
}

pub fn path_str(p: &[Step]) -> String {
    let mut s = String::from("/");
    for (i, st) in p.iter().enumerate() {
        if i > 0 {
            s.push('/');
        }
        match st {
            Step::Key(k) => s.push_str(&format!("{:?}", k)),
            Step::Idx(i) => s.push_str(&format!("{}", i)),
        }
    }
    s
}

pub fn to_pointer(p: &[Step]) -> Vec<sonic_rs::PointerNode> {
    p.iter()
        .map(|st| match st {
            Step::Key(k) => sonic_rs::PointerNode::Key(sonic_rs::FastStr::new(k)),
            Step::Idx(i) => sonic_rs::PointerNode::Index(*i),
        })
        .collect()
}

/// Where each value of a rendered document sits in the text (value spans exclude surrounding
/// whitespace); `kids` are array elements / object member values in order.
#[derive(Clone, Debug)]
pub struct Span {
    pub start: usize,
    pub end: usize,
    pub kids: Vec<Span>,
}

impl Span {
    /// re-base so that this span starts at 0 (for the substring `text[start..end]`)
    pub fn rebased(&self) -> Span {
        fn sh(s: &Span, by: usize) -> Span {
            Span { start: s.start - by, end: s.end - by, kids: s.kids.iter().map(|k| sh(k, by)).collect() }
        }
        sh(self, self.start)
    }
}

pub fn render_spans(j: &J, st: &Style) -> (String, Span) {
    let mut out = String::new();
    if st.ws == 2 && chance(1, 2) {
        ws(&mut out, st);
    }
    let sp = render_spans_into(j, st, &mut out);
    if st.ws == 2 && chance(1, 2) {
        ws(&mut out, st);
    }
    (out, sp)
}

fn render_spans_into(j: &J, st: &Style, out: &mut String) -> Span {
    let start = out.len();
    let mut kids = Vec::new();
    match j {
        J::Arr(a) => {
            out.push('[');
            ws(out, st);
            for (i, x) in a.iter().enumerate() {
                if i > 0 {
                    out.push(',');
                    ws(out, st);
                }
                kids.push(render_spans_into(x, st, out));
                ws(out, st);
            }
            out.push(']');
        }
        J::Obj(m) => {
            out.push('{');
            ws(out, st);
            for (i, (k, v)) in m.iter().enumerate() {
                if i > 0 {
                    out.push(',');
                    ws(out, st);
                }
                render_string(out, k, st);
                ws(out, st);
                out.push(':');
                ws(out, st);
                kids.push(render_spans_into(v, st, out));
                ws(out, st);
            }
            out.push('}');
        }
        other => render_into(other, st, out),
    }
    Span { start, end: out.len(), kids }
}

/// Span tree of well-formed JSON text (harness-side scanner; the text comes from our own renderer
/// or from the reference serializer).
pub fn spans_of(text: &str) -> Span {
    fn skip_ws(b: &[u8], i: &mut usize) {
        while *i < b.len() && matches!(b[*i], b' ' | b'\t' | b'\n' | b'\r') {
            *i += 1;
        }
    }
    fn skip_string(b: &[u8], i: &mut usize) {
        *i += 1;
        while *i < b.len() {
            match b[*i] {
                b'\\' => *i += 2,
                b'"' => {
                    *i += 1;
                    return;
                }
                _ => *i += 1,
            }
        }
    }
    fn value(b: &[u8], i: &mut usize) -> Span {
        skip_ws(b, i);
        let start = *i;
        let mut kids = Vec::new();
        match b[*i] {
            b'"' => skip_string(b, i),
            b'[' => {
                *i += 1;
                skip_ws(b, i);
                if b[*i] == b']' {
                    *i += 1;
                } else {
                    loop {
                        kids.push(value(b, i));
                        skip_ws(b, i);
                        let c = b[*i];
                        *i += 1;
                        if c == b']' {
                            break;
                        }
                    }
                }
            }
            b'{' => {
                *i += 1;
                skip_ws(b, i);
                if b[*i] == b'}' {
                    *i += 1;
                } else {
                    loop {
                        skip_ws(b, i);
                        skip_string(b, i);
                        skip_ws(b, i);
                        *i += 1; // ':'
                        kids.push(value(b, i));
                        skip_ws(b, i);
                        let c = b[*i];
                        *i += 1;
                        if c == b'}' {
                            break;
                        }
                    }
                }
            }
            _ => {
                while *i < b.len() && !matches!(b[*i], b',' | b']' | b'}' | b' ' | b'\t' | b'\n' | b'\r') {
                    *i += 1;
                }
            }
        }
        Span { start, end: *i, kids }
    }
    let mut i = 0;
    value(text.as_bytes(), &mut i)
}

pub fn span_at<'a>(sp: &'a Span, j: &J, path: &[Step]) -> Option<&'a Span> {
    let mut cur = sp;
    let mut cj = j;
    for st in path {
        match (st, cj) {
            (Step::Idx(i), J::Arr(a)) => {
                cj = a.get(*i)?;
                cur = cur.kids.get(*i)?;
            }
            (Step::Key(k), J::Obj(m)) => {
                let pos = m.iter().position(|(kk, _)| kk == k)?;
                cj = &m[pos].1;
                cur = cur.kids.get(pos)?;
            }
            _ => return None,
        }
    }
    Some(cur)
}

/// Overwrite an input text before it is released: a value that still points into its input
/// (instead of into memory it owns) then reads '@' bytes instead of happening to see the old text.
pub fn scrub(mut text: String) {
    unsafe { text.as_bytes_mut().fill(b'@') };
    drop(text);
}
