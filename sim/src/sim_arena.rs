//! C16 — values sharing a parsed arena stay valid in any clone / move / drop order, from any
//! thread; the arena is released exactly when its last sharer goes.
//!
//! 1-3 simulated threads (real OS threads under the baton scheduler, real thread-local node
//! buffer each) hold bags of live `(Value, model)` pairs and run drawn operations: parse by
//! several routes, clone root / subtree, take a child out, insert one value into another
//! document, mutate, read-and-compare, send to another thread, drop. The scheduler can switch
//! threads before every arena reference-count operation and between operations.

use std::collections::HashMap;
use std::sync::atomic::Ordering;
use std::sync::{Arc, Mutex};

use serde::Deserialize;
use sonic_rs::{Deserializer, JsonContainerTrait, JsonValueMutTrait, JsonValueTrait, Read, StreamDeserializer, Value};

use crate::choice::{chance, draw, pick, range};
use crate::gen::{self, GenCfg, Step, Style};
use crate::oracle;
use crate::refjson::J;
use crate::runner::{libcall, SimResult, Violation};
use crate::sched;
use crate::tr;
use crate::trace::{self, C};

/// payload of the panic injected by the "owner dies" fault
struct InjectedUnwind;

struct Item {
    v: Value,
    m: J,
    origins: Vec<u32>,
    big: bool,
}

struct World {
    origin_refs: HashMap<u32, usize>,
    live_desers: usize,
    next_doc: u32,
    mailboxes: Vec<Vec<Item>>,
    /// values published for shared (read-only) use by every thread (`Value: Sync`)
    board: Vec<Arc<Item>>,
    baseline: i64,
    next_key: u32,
}

static WORLD: Mutex<Option<World>> = Mutex::new(None);

fn with_world<R>(f: impl FnOnce(&mut World) -> R) -> R {
    let mut g = WORLD.lock().unwrap_or_else(|e| e.into_inner());
    f(g.as_mut().expect("world"))
}

fn new_doc_id() -> u32 {
    if !sched::baton() {
        return 0; // free-running mode (Miri): no bookkeeping that would synchronise the threads
    }
    with_world(|w| {
        w.next_doc += 1;
        let id = w.next_doc;
        *w.origin_refs.entry(id).or_insert(0) += 1;
        id
    })
}

fn acquire(origins: &[u32]) {
    if !sched::baton() {
        return;
    }
    with_world(|w| {
        for o in origins {
            *w.origin_refs.entry(*o).or_insert(0) += 1;
        }
    })
}

fn release(origins: &[u32]) {
    if !sched::baton() {
        return;
    }
    with_world(|w| {
        for o in origins {
            if let Some(c) = w.origin_refs.get_mut(o) {
                *c -= 1;
                if *c == 0 {
                    w.origin_refs.remove(o);
                }
            }
        }
    })
}

/// conservation: live arenas never exceed the number of live origin documents + live deserializers
fn check_conservation(what: &str) -> Result<(), Violation> {
    if !sched::baton() {
        return Ok(());
    }
    let live = sched::ARENAS_LIVE.load(Ordering::SeqCst);
    let (bound, base) = with_world(|w| ((w.origin_refs.len() + w.live_desers) as i64, w.baseline));
    if live - base > bound {
        return Err(Violation::new(
            "arena/not-released",
            format!("after {}: {} arenas are live but only {} documents/deserializers can still be referenced", what, live - base, bound),
        ));
    }
    if live - base < 0 {
        return Err(Violation::new("arena/released-twice", format!("after {}: live arena count dropped below the baseline ({})", what, live - base)));
    }
    Ok(())
}

fn desers(delta: i64) {
    if sched::baton() {
        with_world(|w| w.live_desers = (w.live_desers as i64 + delta) as usize);
    }
}

thread_local! {
    static NEXT_KEY: std::cell::Cell<u32> = const { std::cell::Cell::new(0) };
}

/// a key no object of this run has yet (per thread counter, no shared state)
fn fresh_key(prefix: &str) -> String {
    let k = NEXT_KEY.with(|c| {
        c.set(c.get() + 1);
        c.get()
    });
    format!("{}{}_{}", prefix, sched::me().unwrap_or(9), k)
}

fn merge(a: &mut Vec<u32>, b: &[u32]) {
    for x in b {
        if !a.contains(x) {
            a.push(*x);
        }
    }
}

#[derive(Deserialize)]
struct Wrapper {
    v: Value,
}

#[derive(Deserialize)]
struct Three {
    a: Value,
    b: Value,
    c: Value,
}

thread_local! {
    /// documents this thread has generated in this run: a later parse often takes one of them again
    /// (same text, same shape: the allocator then hands back the very same addresses)
    static RECENT_DOCS: std::cell::RefCell<Vec<(J, String)>> = const { std::cell::RefCell::new(Vec::new()) };
}

fn gen_doc(cfg: &GenCfg) -> (J, String) {
    let again = RECENT_DOCS.with(|r| {
        let r = r.borrow();
        if !r.is_empty() && chance(1, 3) {
            Some(r[draw(r.len() as u32) as usize].clone())
        } else {
            None
        }
    });
    if let Some(d) = again {
        return d;
    }
    let j = if chance(1, 8) { gen::gen_scalar(cfg) } else { gen::gen_container(cfg) };
    let text = gen::render(&j, &Style { ws: draw(3), esc: draw(2) });
    RECENT_DOCS.with(|r| {
        let mut r = r.borrow_mut();
        if r.len() < 4 {
            r.push((j.clone(), text.clone()));
        }
    });
    (j, text)
}

pub const BIG_N: usize = 200_000;

fn big_elem(k: usize) -> J {
    J::Num(if k % 2 == 0 { "1".into() } else { "2".into() })
}

fn read_item(it: &Item, what: &str) -> Result<(), Violation> {
    if it.big {
        // the big document [1,2,1,2,...] is not kept as a model tree (200 000 nodes): its elements are a formula
        return libcall("read big", || {
            let a = it.v.as_array().ok_or_else(|| Violation::new("mismatch/as_array", format!("{}: big document is not an array", what)))?;
            // (its length is all the model keeps)
            let n: usize = match &it.m {
                J::Num(n) => n.parse().expect("big length"),
                _ => BIG_N,
            };
            if a.len() != n {
                return Err(Violation::new("mismatch/array.len", format!("{}: {} != {}", what, a.len(), n)));
            }
            for i in [0, 1, 2, n / 2, n / 2 + 1, n - 2, n - 1] {
                oracle::check_scalars(&a[i], &big_elem(i), what)?;
            }
            Ok(())
        })?;
    }
    libcall("read", || oracle::check_value(&it.v, &it.m, what))?
}

/// Give up one handle of a shared item; whoever holds the last one drops the value (on its thread).
fn drop_shared(sh: Arc<Item>) -> Result<(), Violation> {
    match Arc::try_unwrap(sh) {
        Ok(Item { v, origins, .. }) => {
            trace::bump(C::value_dropped_foreign);
            libcall("drop shared value", move || drop(v))?;
            release(&origins);
            Ok(())
        }
        Err(still_shared) => {
            drop(still_shared);
            Ok(())
        }
    }
}

/// Overwrite an input text before it is released: a value that still points into its input
/// (instead of into its own arena) then reads '@' bytes instead of happening to see the old text.
fn scrub(mut text: String) {
    unsafe { text.as_bytes_mut().fill(b'@') };
    drop(text);
}

fn scrub_arc(src: Arc<String>) {
    if let Ok(s) = Arc::try_unwrap(src) {
        scrub(s);
    }
}

struct Stream {
    stream: StreamDeserializer<'static, Value, Read<'static>>,
    _src: Arc<String>,
    /// None = a malformed document: the stream must answer Err there and nothing afterwards
    docs: Vec<Option<J>>,
    next: usize,
    ended: bool,
}

const MALFORMED: &[&str] = &[
    "[1,,2]",
    "{\"a\":1,}",
    "[1 2]",
    "{\"a\" 1}",
    "[1,2",
    "{\"k\":[}",
    "tru",
    "\"abc",
    "[1,]",
    "{,}",
    "[[1,2,3],{\"a\":[1,2],\"b\":\"xyz\"},,]",
    "{\"a\":[1,2,3,4,5,6,7,8],\"b\":{\"c\":\"dddddddd\"},\"e\":}",
    "[\"long string long string long string\", [[[[1]]]], 1.5e3, nul]",
];

fn parse_err(what: &str, text: &str, e: sonic_rs::Error) -> Violation {
    Violation::new("mismatch/parse-error", format!("{} failed on well-formed input {:?}: {}", what, oracle::truncate(text), e))
}

fn thread_body(t: usize, nthreads: usize, nops: u32, cfg: GenCfg, errs: Arc<Mutex<Vec<Violation>>>, allow_big: bool) {
    let mut bag: Vec<Item> = Vec::new();
    let mut streams: Vec<Stream> = Vec::new();
    let r = (|| -> Result<(), Violation> {
        for step in 0..nops {
            sched::yield_point(100);
            let op = draw(26);
            let what = format!("T{} step {} op {}", t, step, op);
            match op {
                // ---- parse by several routes
                0 | 1 | 2 => {
                    let (j, text) = gen_doc(&cfg);
                    let route = draw(12);
                    tr!("T{} parse route={} doc={}", t, route, oracle::truncate(&text));
                    let id = new_doc_id();
                    trace::bump(C::dom_parsed_roots);
                    let v: Value = match route {
                        0 => libcall("from_str", || sonic_rs::from_str::<Value>(&text))?.map_err(|e| parse_err("from_str", &text, e))?,
                        1 => libcall("from_slice", || sonic_rs::from_slice::<Value>(text.as_bytes()))?.map_err(|e| parse_err("from_slice", &text, e))?,
                        2 => {
                            // (allocated in library scope: freeing it poisons it, so a value pointing into it is noticed)
                            let b = crate::heap::lib(|| bytes::Bytes::from(text.clone()));
                            desers(1);
                            let r = libcall("Deserializer::from_json(Bytes)", || {
                                let mut de = Deserializer::from_json(&b);
                                let r = de.deserialize::<Value>();
                                drop(de);
                                r
                            });
                            desers(-1);
                            r?.map_err(|e| parse_err("Deserializer(Bytes)", &text, e))?
                        }
                        3 => {
                            let f = crate::heap::lib(|| sonic_rs::FastStr::new(&text));
                            desers(1);
                            let r = libcall("Deserializer::from_json(FastStr)", || {
                                let mut de = Deserializer::from_json(&f);
                                de.deserialize::<Value>()
                            });
                            desers(-1);
                            r?.map_err(|e| parse_err("Deserializer(FastStr)", &text, e))?
                        }
                        4 => {
                            // value embedded in a struct: the copying path, arena owned by the deserializer
                            let wrapped = crate::heap::lib(|| format!("{{\"v\":{}}}", text));
                            desers(1);
                            let r = libcall("from_str::<Wrapper>", || sonic_rs::from_str::<Wrapper>(&wrapped));
                            desers(-1);
                            r?.map_err(|e| parse_err("from_str::<Wrapper>", &wrapped, e))?.v
                        }
                        5 => {
                            desers(1);
                            let r = libcall("use_rawnumber", || Deserializer::from_str(&text).use_rawnumber().deserialize::<Value>());
                            desers(-1);
                            r?.map_err(|e| parse_err("use_rawnumber", &text, e))?
                        }
                        8 => {
                            // raw numbers on the copying path: the value sits inside a struct
                            let wrapped = format!("{{\"v\":{}}}", text);
                            desers(1);
                            let r = libcall("use_rawnumber + Wrapper", || Deserializer::from_str(&wrapped).use_rawnumber().deserialize::<Wrapper>());
                            desers(-1);
                            let v = r?.map_err(|e| parse_err("use_rawnumber + Wrapper", &wrapped, e))?.v;
                            scrub(wrapped);
                            v
                        }
                        9 => {
                            // raw numbers, second element of a Vec<Value>
                            let wrapped = format!("[1.50, {}]", text);
                            desers(1);
                            let r = libcall("use_rawnumber + Vec<Value>", || Deserializer::from_str(&wrapped).use_rawnumber().deserialize::<Vec<Value>>());
                            desers(-1);
                            let mut vs = r?.map_err(|e| parse_err("use_rawnumber + Vec<Value>", &wrapped, e))?;
                            scrub(wrapped);
                            let v = vs.pop().unwrap();
                            libcall("drop vec", move || drop(vs))?;
                            v
                        }
                        10 | 11 => {
                            // typed targets: the document is asked for as an Array and as an Object, at the top
                            // level or as a struct field (the deserializer's shared arena). The kind that does
                            // not match must be refused, and a refusal must not keep anything alive.
                            #[derive(Deserialize)]
                            struct WA {
                                #[allow(dead_code)]
                                k: u8,
                                v: sonic_rs::Array,
                            }
                            #[derive(Deserialize)]
                            struct WO {
                                #[allow(dead_code)]
                                k: u8,
                                v: sonic_rs::Object,
                            }
                            let wrapped = crate::heap::lib(|| format!("{{\"k\":1,\"v\":{}}}", text));
                            let inside = route == 11;
                            desers(1);
                            let r = libcall("typed targets", || {
                                let a: Result<sonic_rs::Array, _> = if inside { sonic_rs::from_str::<WA>(&wrapped).map(|w| w.v) } else { sonic_rs::from_str::<sonic_rs::Array>(&text) };
                                let o: Result<sonic_rs::Object, _> = if inside { sonic_rs::from_str::<WO>(&wrapped).map(|w| w.v) } else { sonic_rs::from_str::<sonic_rs::Object>(&text) };
                                (a.map(|x| x.into_value()).map_err(|e| e.to_string()), o.map(|x| x.into_value()).map_err(|e| e.to_string()))
                            });
                            desers(-1);
                            let (a, o) = r?;
                            trace::bump(C::dom_rejected_ops);
                            let (want_a, want_o) = (matches!(j, J::Arr(_)), matches!(j, J::Obj(_)));
                            if a.is_ok() != want_a || o.is_ok() != want_o {
                                return Err(Violation::new("mismatch/typed-target", format!("{}: as Array ok={} as Object ok={} for the document {}", what, a.is_ok(), o.is_ok(), oracle::truncate(&text))));
                            }
                            match (a, o) {
                                (Ok(v), _) | (_, Ok(v)) => v,
                                _ => {
                                    // a scalar document: nothing to keep; the refusals must have released everything
                                    release(&[id]);
                                    scrub(text);
                                    check_conservation(&what)?;
                                    continue;
                                }
                            }
                        }
                        7 => {
                            // one deserializer: a first value (dropped), this value, then a malformed
                            // document whose error must not disturb the value we keep
                            let bad = *pick(MALFORMED);
                            let all = crate::heap::lib(|| format!("[0] {} {}", text, bad));
                            desers(1);
                            let r = libcall("Deserializer: good, good, malformed", || {
                                let mut de = Deserializer::from_str(&all);
                                let first = de.deserialize::<Value>();
                                let second = de.deserialize::<Value>();
                                let third = de.deserialize::<Value>();
                                drop(first);
                                (second, third.is_err())
                            });
                            desers(-1);
                            let (second, third_failed) = r?;
                            trace::bump(C::dom_rejected_ops);
                            if !third_failed {
                                return Err(Violation::new("mismatch/accepted-malformed", format!("{}: deserialize accepted the malformed document {:?}", what, bad)));
                            }
                            second.map_err(|e| parse_err("Deserializer (second value)", &all, e))?
                        }
                        _ => {
                            // second element of a Vec<Value>
                            let wrapped = crate::heap::lib(|| format!("[0, {}]", text));
                            desers(1);
                            let r = libcall("from_str::<Vec<Value>>", || sonic_rs::from_str::<Vec<Value>>(&wrapped));
                            desers(-1);
                            let mut vs = r?.map_err(|e| parse_err("from_str::<Vec<Value>>", &wrapped, e))?;
                            let v = vs.pop().unwrap();
                            libcall("drop vec", move || drop(vs))?;
                            v
                        }
                    };
                    // the input text is gone (and overwritten) from here on: the value must not depend on it
                    scrub(text);
                    bag.push(Item { v, m: j, origins: vec![id], big: false });
                }
                // ---- several values through one deserializer
                3 => {
                    let docs: Vec<(J, String)> = (0..3).map(|_| gen_doc(&cfg)).collect();
                    let text = format!("{{\"a\":{},\"b\":{} ,\"c\": {}}}", docs[0].1, docs[1].1, docs[2].1);
                    tr!("T{} parse struct {}", t, oracle::truncate(&text));
                    let ids: Vec<u32> = (0..3).map(|_| new_doc_id()).collect();
                    desers(1);
                    let r = libcall("from_str::<Three>", || sonic_rs::from_str::<Three>(&text));
                    desers(-1);
                    let three = r?.map_err(|e| parse_err("from_str::<Three>", &text, e))?;
                    scrub(text);
                    trace::add(C::stream_values, 3);
                    let mut it = docs.into_iter();
                    bag.push(Item { v: three.a, m: it.next().unwrap().0, origins: vec![ids[0]], big: false });
                    bag.push(Item { v: three.b, m: it.next().unwrap().0, origins: vec![ids[1]], big: false });
                    bag.push(Item { v: three.c, m: it.next().unwrap().0, origins: vec![ids[2]], big: false });
                }
                // ---- streams
                4 => {
                    if streams.len() < 2 {
                        let n = range(2, 4);
                        let docs: Vec<(J, String)> = (0..n).map(|_| gen_doc(&cfg)).collect();
                        let mut parts: Vec<String> = docs.iter().map(|d| d.1.clone()).collect();
                        let mut models: Vec<Option<J>> = docs.into_iter().map(|d| Some(d.0)).collect();
                        if chance(1, 3) {
                            // a malformed document after at least one good one; nothing after it is reachable
                            let at = range(1, n) as usize;
                            parts.truncate(at);
                            models.truncate(at);
                            parts.push(pick(MALFORMED).to_string());
                            models.push(None);
                        }
                        let text = parts.join(*pick(&[" ", "\n", "  "]));
                        tr!("T{} open stream {}", t, oracle::truncate(&text));
                        let src = Arc::new(text);
                        desers(1);
                        // SAFETY (harness): `src` is kept alive next to the stream
                        let s: &'static str = unsafe { std::mem::transmute::<&str, &'static str>(src.as_str()) };
                        let raw = chance(1, 3);
                        let stream = libcall("into_stream", || if raw { Deserializer::from_str(s).use_rawnumber().into_stream::<Value>() } else { Deserializer::from_str(s).into_stream::<Value>() })?;
                        streams.push(Stream { stream, _src: src, docs: models, next: 0, ended: false });
                    }
                }
                5 | 6 => {
                    if !streams.is_empty() {
                        let k = draw(streams.len() as u32) as usize;
                        let s = &mut streams[k];
                        if s.next < s.docs.len() && s.docs[s.next].is_none() {
                            // the malformed document: Err, and then nothing more
                            let r = libcall("stream.next (malformed)", || s.stream.next())?;
                            trace::bump(C::dom_rejected_ops);
                            trace::nontrivial();
                            tr!("T{} stream {} -> malformed document", t, k);
                            match r {
                                Some(Err(_)) => {}
                                Some(Ok(_)) => return Err(Violation::new("mismatch/accepted-malformed", format!("{}: stream accepted a malformed document", what))),
                                None => return Err(Violation::new("mismatch/stream-ended-early", format!("{}: stream yielded None instead of the error", what))),
                            }
                            s.next += 1;
                            s.ended = true;
                        } else if s.ended {
                            let r = libcall("stream.next (after error)", || s.stream.next())?;
                            if r.is_some() {
                                return Err(Violation::new("mismatch/stream-after-error", format!("{}: stream yielded an item after its error", what)));
                            }
                        } else if s.next < s.docs.len() {
                            let id = new_doc_id();
                            let r = libcall("stream.next", || s.stream.next())?;
                            let v = match r {
                                Some(Ok(v)) => v,
                                Some(Err(e)) => return Err(Violation::new("mismatch/parse-error", format!("{}: stream.next failed on document {}: {}", what, s.next, e))),
                                None => return Err(Violation::new("mismatch/stream-ended-early", format!("{}: stream yielded None before document {}", what, s.next))),
                            };
                            trace::bump(C::stream_values);
                            tr!("T{} stream {} -> doc {}", t, k, s.next);
                            bag.push(Item { v, m: s.docs[s.next].clone().unwrap(), origins: vec![id], big: false });
                            s.next += 1;
                        }
                    }
                }
                7 => {
                    if !streams.is_empty() {
                        let k = draw(streams.len() as u32) as usize;
                        let s = streams.swap_remove(k);
                        if s.next > 0 {
                            trace::bump(C::deser_dropped_before_values);
                        }
                        tr!("T{} drop stream {}", t, k);
                        let Stream { stream, _src, .. } = s;
                        libcall("drop stream", move || drop(stream))?;
                        scrub_arc(_src);
                        desers(-1);
                    }
                }
                // ---- clone root / subtree
                8 | 9 => {
                    if !bag.is_empty() {
                        let i = draw(bag.len() as u32) as usize;
                        let (m, origins, big) = (bag[i].m.clone(), bag[i].origins.clone(), bag[i].big);
                        if big || draw(2) == 0 {
                            tr!("T{} clone root of #{}", t, i);
                            acquire(&origins);
                            let v = libcall("clone", || bag[i].v.clone())?;
                            trace::bump(C::dom_clones);
                            bag.push(Item { v, m, origins, big });
                        } else {
                            let paths = gen::all_paths(&m);
                            let p = pick(&paths).clone();
                            tr!("T{} clone subtree #{}{}", t, i, gen::path_str(&p));
                            acquire(&origins);
                            let sub = libcall("pointer+clone", || bag[i].v.pointer(&gen::to_pointer(&p)).map(|x| x.clone()))?;
                            let Some(v) = sub else {
                                return Err(Violation::new("mismatch/pointer", format!("{}: pointer {} is None but the model has it", what, gen::path_str(&p))));
                            };
                            trace::bump(C::dom_clones);
                            bag.push(Item { v, m: gen::at_path(&m, &p).unwrap().clone(), origins, big: false });
                        }
                    }
                }
                // ---- take a child out (promotes the path to owned containers)
                10 => {
                    if !bag.is_empty() {
                        let i = draw(bag.len() as u32) as usize;
                        if !bag[i].big {
                            let paths: Vec<Vec<Step>> = gen::all_paths(&bag[i].m).into_iter().filter(|p| !p.is_empty()).collect();
                            if !paths.is_empty() {
                                let p = pick(&paths).clone();
                                tr!("T{} take #{}{}", t, i, gen::path_str(&p));
                                let origins = bag[i].origins.clone();
                                acquire(&origins);
                                let taken = libcall("pointer_mut+take", || bag[i].v.pointer_mut(&gen::to_pointer(&p)).map(|x| x.take()))?;
                                let Some(v) = taken else {
                                    return Err(Violation::new("mismatch/pointer_mut", format!("{}: pointer_mut {} is None but the model has it", what, gen::path_str(&p))));
                                };
                                trace::bump(C::dom_takes);
                                trace::bump(C::to_mut_promotion);
                                trace::nontrivial();
                                let slot = gen::at_path_mut(&mut bag[i].m, &p).unwrap();
                                let m = std::mem::replace(slot, J::Null);
                                bag.push(Item { v, m, origins, big: false });
                            }
                        }
                    }
                }
                // ---- insert one value into another document
                11 | 12 => {
                    if bag.len() >= 2 {
                        let j = draw(bag.len() as u32) as usize;
                        let moved = bag.swap_remove(j);
                        let i = draw(bag.len() as u32) as usize;
                        if bag[i].big || moved.big {
                            bag.push(moved);
                        } else {
                            trace::bump(C::cross_arena_insert);
                            trace::nontrivial();
                            let Item { v: mv, m: mm, origins: mo, .. } = moved;
                            let target = &mut bag[i];
                            let (tv, tm) = (&mut target.v, &mut target.m);
                            match tm {
                                J::Arr(a) => {
                                    tr!("T{} push #{} into array #{}", t, j, i);
                                    libcall("as_array_mut+push", || tv.as_array_mut().map(|arr| arr.push(mv)).is_some())?
                                        .then_some(())
                                        .ok_or_else(|| Violation::new("mismatch/as_array_mut", format!("{}: None on an array", what)))?;
                                    a.push(mm);
                                }
                                J::Obj(o) => {
                                    let key = fresh_key("ins");
                                    tr!("T{} insert #{} into object #{} as {:?}", t, j, i, key);
                                    let old = libcall("as_object_mut+insert", || tv.as_object_mut().map(|ob| ob.insert(&key, mv)))?
                                        .ok_or_else(|| Violation::new("mismatch/as_object_mut", format!("{}: None on an object", what)))?;
                                    if old.is_some() {
                                        return Err(Violation::new("mismatch/object.insert", format!("{}: insert of a fresh key returned an old value", what)));
                                    }
                                    o.push((key, mm));
                                }
                                _ => {
                                    // scalar: overwrite it by assignment (drops the old value)
                                    tr!("T{} assign #{} over scalar #{}", t, j, i);
                                    let old_origins = std::mem::take(&mut target.origins);
                                    libcall("assign", || *tv = mv)?;
                                    *tm = mm;
                                    release(&old_origins);
                                }
                            }
                            // origins of the moved value now live inside #i
                            let mut add = Vec::new();
                            for o in &mo {
                                if bag[i].origins.contains(o) {
                                    add.push(*o); // counted twice before; one reference less now
                                }
                            }
                            merge(&mut bag[i].origins, &mo);
                            release(&add);
                        }
                    }
                }
                // ---- mutate
                13 | 14 if chance(1, 4) => {
                    // through a typed handle (into_array / into_object): reaches a parsed container before
                    // any promotion, unlike as_array_mut / as_object_mut
                    if !bag.is_empty() {
                        let i = draw(bag.len() as u32) as usize;
                        if !bag[i].big && matches!(bag[i].m, J::Arr(_) | J::Obj(_)) {
                            trace::bump(C::dom_mutations);
                            trace::nontrivial();
                            let Item { v, mut m, origins, big } = bag.swap_remove(i);
                            let sub = draw(3);
                            tr!("T{} #{} typed-handle op {}", t, i, sub);
                            let v2 = match &mut m {
                                J::Arr(a) => {
                                    let mut h = libcall("into_array", || v.into_array())?.ok_or_else(|| Violation::new("mismatch/into_array", format!("{}: None on an array", what)))?;
                                    match sub {
                                        0 => {
                                            libcall("Array::clear", || h.clear())?;
                                            a.clear();
                                        }
                                        1 => {
                                            libcall("Array::push", || h.push(1u64))?;
                                            a.push(J::Num("1".into()));
                                        }
                                        _ => {
                                            let got = libcall("Array::pop", || h.pop())?;
                                            a.pop();
                                            libcall("drop popped", move || drop(got))?;
                                        }
                                    }
                                    libcall("into_value", || h.into_value())?
                                }
                                J::Obj(o) => {
                                    let mut h = libcall("into_object", || v.into_object())?.ok_or_else(|| Violation::new("mismatch/into_object", format!("{}: None on an object", what)))?;
                                    match sub {
                                        0 => {
                                            libcall("Object::clear", || h.clear())?;
                                            o.clear();
                                        }
                                        1 => {
                                            let key = fresh_key("t");
                                            libcall("Object::insert", || h.insert(&key, false))?;
                                            o.push((key, J::Bool(false)));
                                        }
                                        _ => {
                                            if !o.is_empty() {
                                                let k = o[0].0.clone();
                                                let got = libcall("Object::remove", || h.remove(&k))?;
                                                o.remove(0);
                                                libcall("drop removed", move || drop(got))?;
                                            }
                                        }
                                    }
                                    libcall("into_value", || h.into_value())?
                                }
                                _ => unreachable!(),
                            };
                            bag.push(Item { v: v2, m, origins, big });
                        }
                    }
                }
                13 | 14 => {
                    if !bag.is_empty() {
                        let i = draw(bag.len() as u32) as usize;
                        if !bag[i].big {
                            trace::bump(C::dom_mutations);
                            trace::nontrivial();
                            let it = &mut bag[i];
                            match &mut it.m {
                                J::Arr(a) => match draw(5) {
                                    0 => {
                                        tr!("T{} #{} push 7", t, i);
                                        libcall("push", || it.v.as_array_mut().unwrap().push(7u64))?;
                                        a.push(J::Num("7".into()));
                                    }
                                    1 => {
                                        tr!("T{} #{} pop", t, i);
                                        let got = libcall("pop", || it.v.as_array_mut().unwrap().pop())?;
                                        let want = a.pop();
                                        match (&got, &want) {
                                            (None, None) => {}
                                            (Some(g), Some(w)) => libcall("check popped", || oracle::check_value(g, w, &what))??,
                                            _ => return Err(Violation::new("mismatch/pop", format!("{}: pop present={} model present={}", what, got.is_some(), want.is_some()))),
                                        }
                                        libcall("drop popped", move || drop(got))?;
                                    }
                                    2 if !a.is_empty() => {
                                        let k = draw(a.len() as u32) as usize;
                                        tr!("T{} #{} remove {}", t, i, k);
                                        libcall("remove", || it.v.as_array_mut().unwrap().remove(k))?;
                                        a.remove(k);
                                    }
                                    3 => {
                                        let n = draw(a.len() as u32 + 1) as usize;
                                        tr!("T{} #{} truncate {}", t, i, n);
                                        libcall("truncate", || it.v.as_array_mut().unwrap().truncate(n))?;
                                        a.truncate(n);
                                    }
                                    _ => {
                                        tr!("T{} #{} push str", t, i);
                                        libcall("push", || it.v.as_array_mut().unwrap().push("pushed"))?;
                                        a.push(J::Str("pushed".into()));
                                    }
                                },
                                J::Obj(o) => match draw(4) {
                                    0 if !o.is_empty() => {
                                        let k = o[draw(o.len() as u32) as usize].0.clone();
                                        tr!("T{} #{} remove key {:?}", t, i, k);
                                        let got = libcall("remove key", || it.v.as_object_mut().unwrap().remove(&k))?;
                                        let pos = o.iter().position(|(kk, _)| *kk == k).unwrap();
                                        let (_, want) = o.remove(pos);
                                        match &got {
                                            Some(g) => libcall("check removed", || oracle::check_value(g, &want, &what))??,
                                            None => return Err(Violation::new("mismatch/object.remove", format!("{}: remove({:?}) returned None", what, k))),
                                        }
                                        libcall("drop removed", move || drop(got))?;
                                    }
                                    1 => {
                                        tr!("T{} #{} clear", t, i);
                                        libcall("clear", || it.v.as_object_mut().unwrap().clear())?;
                                        o.clear();
                                    }
                                    _ => {
                                        let key = fresh_key("m");
                                        tr!("T{} #{} insert {:?}: true", t, i, key);
                                        libcall("insert", || it.v.as_object_mut().unwrap().insert(&key, true))?;
                                        o.push((key, J::Bool(true)));
                                    }
                                },
                                _ => {}
                            }
                        }
                    }
                }
                // ---- read and compare
                15 => {
                    if !bag.is_empty() {
                        let i = draw(bag.len() as u32) as usize;
                        read_item(&bag[i], &what)?;
                    }
                }
                16 => {
                    for it in &bag {
                        read_item(it, &what)?;
                    }
                }
                // ---- send to another thread / receive
                17 => {
                    if !bag.is_empty() && nthreads > 1 {
                        let i = draw(bag.len() as u32) as usize;
                        let mut k = draw(nthreads as u32 - 1) as usize;
                        if k >= t {
                            k += 1;
                        }
                        let it = bag.swap_remove(i);
                        tr!("T{} send #{} to T{}", t, i, k);
                        trace::bump(C::value_sent_to_thread);
                        trace::nontrivial();
                        with_world(|w| w.mailboxes[k].push(it));
                    }
                }
                18 => {
                    let got: Vec<Item> = with_world(|w| std::mem::take(&mut w.mailboxes[t]));
                    if !got.is_empty() {
                        tr!("T{} received {} value(s)", t, got.len());
                    }
                    // sometimes this thread is a pure consumer: it looks at what it got and lets go of it at once,
                    // so a document's last owner is often not the thread that parsed it
                    let consume = !got.is_empty() && chance(1, 3);
                    for it in got {
                        read_item(&it, &what)?;
                        if consume {
                            let Item { v, origins, .. } = it;
                            libcall("drop received", move || drop(v))?;
                            release(&origins);
                        } else {
                            bag.push(it);
                        }
                    }
                }
                // ---- hand-off: parse, give the document away untouched, let the others run, parse the same
                // text again (same sizes: with the heap in reuse mode the new arena may land where the old was)
                19 if nthreads > 1 && chance(1, 2) => {
                    let (j, text) = gen_doc(&cfg);
                    let mut k = draw(nthreads as u32 - 1) as usize;
                    if k >= t {
                        k += 1;
                    }
                    trace::bump(C::arena_handoffs);
                    tr!("T{} hand-off to T{} then parse again doc={}", t, k, oracle::truncate(&text));
                    let id = new_doc_id();
                    trace::bump(C::dom_parsed_roots);
                    let v = libcall("from_str", || sonic_rs::from_str::<Value>(&text))?.map_err(|e| parse_err("from_str", &text, e))?;
                    trace::bump(C::value_sent_to_thread);
                    trace::nontrivial();
                    with_world(|w| w.mailboxes[k].push(Item { v, m: j.clone(), origins: vec![id], big: false }));
                    for _ in 0..range(1, 4) {
                        sched::yield_point(100);
                    }
                    let id = new_doc_id();
                    trace::bump(C::dom_parsed_roots);
                    let v = libcall("from_str", || sonic_rs::from_str::<Value>(&text))?.map_err(|e| parse_err("from_str", &text, e))?;
                    scrub(text);
                    let it = Item { v, m: j, origins: vec![id], big: false };
                    read_item(&it, &what)?;
                    bag.push(it);
                }
                // ---- shared board: one Value read and cloned from by several threads at once
                20 => {
                    if !bag.is_empty() && nthreads > 1 {
                        let i = draw(bag.len() as u32) as usize;
                        let it = bag.swap_remove(i);
                        tr!("T{} publish #{} on the shared board", t, i);
                        trace::nontrivial();
                        with_world(|w| w.board.push(Arc::new(it)));
                    }
                }
                21 | 22 => {
                    let shared: Option<Arc<Item>> = with_world(|w| if w.board.is_empty() { None } else { Some(w.board[draw(w.board.len() as u32) as usize].clone()) });
                    if let Some(sh) = shared {
                        if op == 21 || sh.big {
                            tr!("T{} read a shared value", t);
                            read_item(&sh, &what)?;
                        } else {
                            let paths = gen::all_paths(&sh.m);
                            let p = pick(&paths).clone();
                            tr!("T{} clone subtree {} of a shared value", t, gen::path_str(&p));
                            acquire(&sh.origins);
                            let sub = libcall("shared pointer+clone", || if p.is_empty() { Some(sh.v.clone()) } else { sh.v.pointer(&gen::to_pointer(&p)).cloned() })?;
                            let Some(v) = sub else {
                                return Err(Violation::new("mismatch/pointer", format!("{}: pointer {} into a shared value is None", what, gen::path_str(&p))));
                            };
                            trace::bump(C::dom_clones);
                            bag.push(Item { v, m: gen::at_path(&sh.m, &p).unwrap().clone(), origins: sh.origins.clone(), big: false });
                        }
                        // the temporary handle goes away without touching the value (it is not the last one
                        // unless the board entry was removed meanwhile; then it is dropped here, on this thread)
                        drop_shared(sh)?;
                    }
                }
                23 => {
                    let taken: Option<Arc<Item>> = with_world(|w| if w.board.is_empty() { None } else { Some(w.board.swap_remove(draw(w.board.len() as u32) as usize)) });
                    if let Some(sh) = taken {
                        tr!("T{} remove a shared value from the board", t);
                        drop_shared(sh)?;
                    }
                }
                // ---- extract: values moved OUT of a container by the container API become sharers of their own
                // (they are read again long after, possibly when the document they came from is gone)
                24 | 25 => {
                    let cands: Vec<usize> = (0..bag.len()).filter(|&k| !bag[k].big && matches!(&bag[k].m, J::Arr(a) if !a.is_empty()) || matches!(&bag[k].m, J::Obj(o) if !o.is_empty()) && !bag[k].big).collect();
                    if !cands.is_empty() {
                        let i = *pick(&cands);
                        trace::bump(C::dom_takes);
                        trace::nontrivial();
                        let origins = bag[i].origins.clone();
                        let mut out: Vec<(Value, J)> = Vec::new();
                        let typed = chance(1, 2);
                        let Item { v, m, origins: o0, big } = bag.swap_remove(i);
                        let (v, m) = match m {
                            J::Arr(mut a) => {
                                // through a typed handle (no promotion first) or through as_array_mut
                                let mut h: sonic_rs::Array;
                                let mut vv = v;
                                let how = draw(6);
                                tr!("T{} extract from array #{} how={} typed={}", t, i, how, typed);
                                let arr: &mut sonic_rs::Array = if typed {
                                    h = libcall("into_array", || vv.into_array())?.ok_or_else(|| Violation::new("mismatch/into_array", format!("{}: None on an array", what)))?;
                                    vv = Value::new();
                                    &mut h
                                } else {
                                    h = sonic_rs::Array::new();
                                    let _ = &h;
                                    vv.as_array_mut().ok_or_else(|| Violation::new("mismatch/as_array_mut", format!("{}: None on an array", what)))?
                                };
                                match how {
                                    0 => {
                                        let got = libcall("pop", || arr.pop())?;
                                        out.push((got.ok_or_else(|| Violation::new("mismatch/pop", format!("{}: None on a non-empty array", what)))?, a.pop().unwrap()));
                                    }
                                    1 => {
                                        let k = draw(a.len() as u32) as usize;
                                        // (Array::remove returns nothing: take the element through the slice view instead)
                                        out.push((libcall("take through as_mut_slice", || arr.as_mut_slice()[k].take())?, std::mem::replace(&mut a[k], J::Null)));
                                    }
                                    2 => {
                                        let k = draw(a.len() as u32) as usize;
                                        out.push((libcall("swap_remove", || arr.swap_remove(k))?, a.swap_remove(k)));
                                    }
                                    3 => {
                                        let from = draw(a.len() as u32 + 1) as usize;
                                        let to = from + draw((a.len() - from) as u32 + 1) as usize;
                                        let got: Vec<Value> = libcall("drain", || arr.drain(from..to).collect())?;
                                        let want: Vec<J> = a.drain(from..to).collect();
                                        if got.len() != want.len() {
                                            return Err(Violation::new("mismatch/drain", format!("{}: drain yielded {} of {}", what, got.len(), want.len())));
                                        }
                                        out.extend(got.into_iter().zip(want));
                                    }
                                    4 => {
                                        let at = draw(a.len() as u32 + 1) as usize;
                                        let tail = libcall("split_off", || arr.split_off(at))?;
                                        let mt = a.split_off(at);
                                        out.push((libcall("into_value", || tail.into_value())?, J::Arr(mt)));
                                    }
                                    _ => {
                                        // consume a clone's iterator half way: the yielded values live on, the rest is dropped
                                        let n = draw(a.len() as u32 + 1) as usize;
                                        let c = libcall("clone", || arr.clone())?;
                                        let got: Vec<Value> = libcall("into_iter.take(n)", || {
                                            let mut it = c.into_iter();
                                            let mut g = Vec::new();
                                            for _ in 0..n {
                                                if let Some(x) = it.next() {
                                                    g.push(x);
                                                }
                                            }
                                            drop(it);
                                            g
                                        })?;
                                        if got.len() != n {
                                            return Err(Violation::new("mismatch/into_iter", format!("{}: into_iter yielded {} of {}", what, got.len(), n)));
                                        }
                                        out.extend(got.into_iter().zip(a.iter().take(n).cloned()));
                                    }
                                }
                                let back = if typed { libcall("into_value", || h.into_value())? } else { vv };
                                (back, J::Arr(a))
                            }
                            J::Obj(mut o) => {
                                let mut vv = v;
                                let k = draw(o.len() as u32) as usize;
                                let key = o[k].0.clone();
                                tr!("T{} extract member {:?} from object #{} typed={}", t, key, i, typed);
                                let got = if typed {
                                    let mut h = libcall("into_object", || vv.into_object())?.ok_or_else(|| Violation::new("mismatch/into_object", format!("{}: None on an object", what)))?;
                                    let g = libcall("Object::remove", || h.remove(&key))?;
                                    vv = libcall("into_value", || h.into_value())?;
                                    g
                                } else {
                                    libcall("as_object_mut+remove", || vv.as_object_mut().and_then(|ob| ob.remove(&key)))?
                                };
                                let (_, mv) = o.remove(k);
                                out.push((got.ok_or_else(|| Violation::new("mismatch/object.remove", format!("{}: remove({:?}) is None", what, key)))?, mv));
                                (vv, J::Obj(o))
                            }
                            _ => unreachable!(),
                        };
                        bag.push(Item { v, m, origins: o0, big });
                        for (xv, xm) in out {
                            acquire(&origins);
                            let it = Item { v: xv, m: xm, origins: origins.clone(), big: false };
                            read_item(&it, &what)?;
                            bag.push(it);
                        }
                    }
                }
                // ---- drop
                _ => {
                    if !bag.is_empty() && !(allow_big && chance(1, 4)) {
                        let i = draw(bag.len() as u32) as usize;
                        let it = bag.swap_remove(i);
                        let Item { v, origins, .. } = it;
                        if chance(1, 5) {
                            // fault injection: the owner dies. The value is dropped while its thread is unwinding
                            // from a panic (which the thread survives, as under catch_unwind or a joined thread);
                            // a drop is a drop: the arena accounting must come out the same
                            tr!("T{} drop #{} while unwinding from an injected panic", t, i);
                            trace::bump(C::value_dropped_unwinding);
                            libcall("drop while unwinding", move || {
                                let r = std::panic::catch_unwind(std::panic::AssertUnwindSafe(move || {
                                    let _held = v;
                                    std::panic::panic_any(InjectedUnwind);
                                }));
                                drop(r);
                            })?;
                            let _ = crate::runner::take_last_panic();
                        } else {
                            tr!("T{} drop #{}", t, i);
                            libcall("drop", move || drop(v))?;
                        }
                        release(&origins);
                    } else if allow_big && chance(1, 3) {
                        // a document big enough for the node buffer's heap fallback, or just below it: the
                        // thread-local buffer then grows (by doubling) across parses of rising size
                        let n = *pick(&[30_000usize, 99_000, 120_000, 160_000, 196_000, BIG_N]);
                        let mut text = String::with_capacity(2 * n + 2);
                        text.push('[');
                        for k in 0..n {
                            if k > 0 {
                                text.push(',');
                            }
                            text.push(if k % 2 == 0 { '1' } else { '2' });
                        }
                        text.push(']');
                        tr!("T{} parse big document ({} elements)", t, n);
                        let id = new_doc_id();
                        let v = libcall("from_str(big)", || sonic_rs::from_str::<Value>(&text))?.map_err(|e| parse_err("from_str(big)", "[1,2,...]", e))?;
                        bag.push(Item { v, m: J::Num(n.to_string()), origins: vec![id], big: true });
                    }
                }
            }
            check_conservation(&what)?;
        }
        // everything this thread still holds must still read correctly ...
        for it in &bag {
            read_item(it, "thread end")?;
        }
        Ok(())
    })();
    if let Err(v) = r {
        errs.lock().unwrap_or_else(|e| e.into_inner()).push(v);
    }
    // ... and is then dropped in a drawn order (streams too)
    let mut rest: Vec<(Option<Item>, Option<Stream>)> = bag.into_iter().map(|i| (Some(i), None)).collect();
    rest.extend(streams.into_iter().map(|s| (None, Some(s))));
    if nthreads == 1 {
        // (thorough tier: the drop order of a single-threaded run is enumerated, see `enumerate_drop_orders`)
        FINAL_DROPS.store(((crate::choice::log_len() as u64) << 8) | rest.len().min(255) as u64, Ordering::SeqCst);
    }
    while !rest.is_empty() {
        sched::yield_point(100);
        let k = if rest.len() > 1 { draw(rest.len() as u32) as usize } else { 0 };
        let (it, st) = rest.swap_remove(k);
        let r = if let Some(Item { v, origins, .. }) = it {
            let r = libcall("drop at thread end", move || drop(v));
            release(&origins);
            r
        } else if let Some(s) = st {
            let Stream { stream, _src, .. } = s;
            let r = libcall("drop stream at thread end", move || drop(stream));
            scrub_arc(_src);
            desers(-1);
            r
        } else {
            Ok(())
        };
        // whatever is left must be untouched by that drop
        let r = r.and_then(|_| check_conservation("drop at thread end")).and_then(|_| {
            for (it, _) in &rest {
                if let Some(it) = it {
                    read_item(it, "survivor of a drop at thread end")?;
                }
            }
            Ok(())
        });
        if let Err(v) = r {
            errs.lock().unwrap_or_else(|e| e.into_inner()).push(v);
            break;
        }
    }
    // anything left after an error is dropped without checks
    libcall("drop rest", move || drop(rest.into_iter().map(|(i, s)| (i.map(|i| i.v), s.map(|s| s.stream))).collect::<Vec<_>>())).ok();
}

/// (position of the first final-drop draw << 8) | number of things to drop; 0 = not a single-threaded run
static FINAL_DROPS: std::sync::atomic::AtomicU64 = std::sync::atomic::AtomicU64::new(0);

/// Thorough tier: for a single-threaded base run that ends with 2..=5 live values / streams, every order in
/// which they can be dropped (the base run drew one of them). The drop order is the tail of the choice stream:
/// draw(n), draw(n-1), ..., draw(2), each an index into what is left.
pub fn enumerate_drop_orders(base: &[u32]) -> Vec<Vec<u32>> {
    let rec = FINAL_DROPS.load(Ordering::SeqCst);
    let (pos, n) = ((rec >> 8) as usize, (rec & 255) as usize);
    let mut out = Vec::new();
    if rec == 0 || !(2..=5).contains(&n) {
        return out;
    }
    // 120 orders for five sharers: only for one base run in four
    if n == 5 && base.iter().fold(0u32, |a, b| a.wrapping_mul(31).wrapping_add(*b)) % 4 != 0 {
        return out;
    }
    let mut prefix = base.to_vec();
    prefix.resize(pos.max(prefix.len().min(pos)), 0);
    prefix.truncate(pos);
    let mut idx = vec![0u32; n - 1];
    loop {
        let mut c = prefix.clone();
        c.extend_from_slice(&idx);
        let same = (0..n - 1).all(|k| base.get(pos + k).copied().unwrap_or(0) == idx[k]);
        if !same {
            out.push(c);
        }
        // next tuple: idx[k] < n - k
        let mut k = n - 1;
        loop {
            if k == 0 {
                return out;
            }
            k -= 1;
            idx[k] += 1;
            if (idx[k] as usize) < n - k {
                break;
            }
            idx[k] = 0;
        }
    }
}

pub fn run() -> SimResult {
    FINAL_DROPS.store(0, Ordering::SeqCst);
    let nthreads = range(1, 3) as usize;
    let mut cfg = GenCfg::small();
    cfg.max_depth = range(1, 3);
    cfg.max_width = range(1, 4);
    cfg.node_budget = *pick(&[5u32, 10, 20]);
    cfg.max_str = *pick(&[4u32, 12, 40, 80]);
    cfg.classes = gen::CL_PLAIN | if chance(1, 3) { gen::CL_QUOTE | gen::CL_U2 } else { 0 };
    // swarm knob: freed blocks are poisoned and quarantined (use-after-free reads poison), or handed out
    // again at once by exact size (stale address-keyed state gets its chance)
    let reuse = draw(3) == 0;
    if reuse {
        trace::bump(C::heap_reuse_runs);
    }
    crate::heap::set_reuse_mode(reuse, ((draw(u32::MAX) as u64) << 20) ^ draw(u32::MAX) as u64);
    let allow_big = chance(1, 40) && !cfg!(miri);
    NEXT_KEY.with(|c| c.set(0));
    let baseline = sched::ARENAS_LIVE.load(Ordering::SeqCst);
    *WORLD.lock().unwrap_or_else(|e| e.into_inner()) = Some(World {
        origin_refs: HashMap::new(),
        live_desers: 0,
        next_doc: 0,
        mailboxes: (0..nthreads).map(|_| Vec::new()).collect(),
        board: Vec::new(),
        baseline,
        next_key: 0,
    });
    let errs: Arc<Mutex<Vec<Violation>>> = Arc::new(Mutex::new(Vec::new()));
    let mut progs: Vec<Box<dyn FnOnce() + Send>> = Vec::new();
    for t in 0..nthreads {
        let nops = range(2, if nthreads == 1 { 40 } else { 24 });
        let cfg = cfg.clone();
        let errs = errs.clone();
        progs.push(Box::new(move || thread_body(t, nthreads, nops, cfg, errs, allow_big)));
    }
    tr!("scenario arena threads={} big={}", nthreads, allow_big);
    sched::set_step_hint(300);
    let results = sched::run_threads(progs);
    let mut first: Option<Violation> = None;
    for (i, r) in results.iter().enumerate() {
        if r.step_cap {
            first.get_or_insert(Violation::new("harness/step-cap", "whole-run step cap exceeded"));
        }
        if r.no_progress {
            first.get_or_insert(Violation::new("no-progress", format!("T{}: a library call did not return within the yield cap", i)));
        }
        if let Some(p) = &r.panic {
            first.get_or_insert(Violation::new("harness/panic", format!("simulated thread T{} panicked outside a library call: {}", i, p)));
        }
    }
    if first.is_none() {
        first = errs.lock().unwrap_or_else(|e| e.into_inner()).drain(..).next();
    }
    // values still in mailboxes: read, then drop on the driver (a foreign thread for all of them)
    let board: Vec<Arc<Item>> = with_world(|w| std::mem::take(&mut w.board));
    for sh in board {
        if first.is_none() {
            if let Err(v) = read_item(&sh, "driver: value left on the shared board") {
                first = Some(v);
            }
        }
        if let (None, Err(v)) = (&first, drop_shared(sh)) {
            first = Some(v);
        }
    }
    let leftovers: Vec<Item> = with_world(|w| w.mailboxes.iter_mut().flat_map(|m| m.drain(..)).collect());
    for it in leftovers {
        if first.is_none() {
            if let Err(v) = read_item(&it, "driver: leftover in mailbox") {
                first = Some(v);
            }
        }
        trace::bump(C::value_dropped_foreign);
        let Item { v, origins, .. } = it;
        let r = libcall("drop leftover", move || drop(v));
        release(&origins);
        if let (None, Err(v)) = (&first, r) {
            first = Some(v);
        }
    }
    let live = sched::ARENAS_LIVE.load(Ordering::SeqCst);
    *WORLD.lock().unwrap_or_else(|e| e.into_inner()) = None;
    if let Some(v) = first {
        return Err(v);
    }
    if live != baseline {
        return Err(Violation::new(
            "arena/not-released",
            format!("all values, streams and threads are gone but {} arena(s) are still live", live - baseline),
        ));
    }
    Ok(())
}
