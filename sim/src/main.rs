//! dsim — deterministic simulation with fault injection for sonic-rs.
//!
//!   dsim supervise --prop C18 --tier quick [--seed N] --other-bin <baseline dsim> --verif-dir /verif
//!   dsim worker --sim cache --config native --seed N --from A --count K --out FILE
//!   dsim replay FILE            re-execute a replay file in this process
//!   dsim exec-server --sim S    candidate executor used by the minimiser
//!   dsim one --sim S --seed N --run I [--trace]

#[cfg(not(miri))]
#[global_allocator]
static GLOBAL: heap::SimHeap = heap::SimHeap;

mod choice;
mod crash;
mod gen;
mod heap;
mod jser;
mod oracle;
mod refjson;
mod runner;
mod sched;
mod sim_arena;
mod sim_cache;
mod sim_dom;
mod sim_io;
mod sim_lazy;
mod sinks;
mod supervise;
mod trace;

use runner::{SimDef, Source};

pub static SIMS: &[SimDef] = &[SimDef {
    name: "cache",
    prop: "C18",
    run: sim_cache::run,
    about: "publish-once caches of LazyValue / OwnedLazyValue under 2-3 concurrent readers with spurious weak-CAS failures",
    enumerate: None,
}, SimDef {
    name: "arena",
    prop: "C16",
    run: sim_arena::run,
    about: "values sharing a parsed arena under clone / take / insert / send / drop orders across 1-3 threads",
    enumerate: Some(sim_arena::enumerate_drop_orders),
}, SimDef {
    name: "lazy",
    prop: "C13",
    run: sim_lazy::run,
    about: "lazy and owned-lazy values as faithful views under histories of reads, clones, conversions and mutations",
    enumerate: None,
}, SimDef {
    name: "dom",
    prop: "C15",
    run: sim_dom::run,
    about: "the mutable DOM against an array/map model under histories over the public mutation API",
    enumerate: None,
}, SimDef {
    name: "io",
    prop: "C05",
    run: sim_io::run,
    about: "serialization of typed value trees through every writer stack under writer fault sequences",
    enumerate: Some(sim_io::enumerate_faults),
}];

pub fn find_sim(name: &str) -> Option<&'static SimDef> {
    SIMS.iter().find(|s| s.name == name)
}

fn arg(args: &[String], name: &str) -> Option<String> {
    args.iter().position(|a| a == name).and_then(|i| args.get(i + 1)).cloned()
}

fn flag(args: &[String], name: &str) -> bool {
    args.iter().any(|a| a == name)
}

pub fn config_name() -> &'static str {
    if cfg!(debug_assertions) && !cfg!(miri) {
        "native-dbg"
    } else if cfg!(target_feature = "avx2") {
        "native"
    } else {
        "baseline"
    }
}

struct FixedHashSeed;
impl ahash::random_state::RandomSource for FixedHashSeed {
    fn gen_hasher_seed(&self) -> usize {
        0x5eed
    }
}

fn init_worker_process() {
    // randomised hashing is a source of nondeterminism (iteration and drop order of mutated DOM
    // objects): together with `--cfg fuzzing` (fixed ahash keys) this makes it a pure function of the run
    let _ = ahash::random_state::set_random_source(FixedHashSeed);
    crash::install();
    runner::install_panic_hook();
    sched::install_hooks();
    if let Err(e) = refjson::self_test() {
        eprintln!("HARNESS-ERROR {}", e);
        std::process::exit(2);
    }
}

fn main() {
    let args: Vec<String> = std::env::args().collect();
    let cmd = args.get(1).map(|s| s.as_str()).unwrap_or("");
    let code = match cmd {
        "supervise" => supervise::main(&args),
        "worker" => {
            init_worker_process();
            let sim = find_sim(&arg(&args, "--sim").unwrap_or_default()).expect("unknown sim");
            runner::worker(runner::WorkerArgs {
                sim,
                config: config_name().to_string(),
                seed: arg(&args, "--seed").and_then(|s| s.parse().ok()).unwrap_or(0),
                from: arg(&args, "--from").and_then(|s| s.parse().ok()).unwrap_or(0),
                count: arg(&args, "--count").and_then(|s| s.parse().ok()).unwrap_or(1000),
                out: arg(&args, "--out").expect("--out"),
                max_secs: arg(&args, "--max-secs").and_then(|s| s.parse().ok()).unwrap_or(1e9),
                max_violations: arg(&args, "--max-violations").and_then(|s| s.parse().ok()).unwrap_or(4),
                hash_log: arg(&args, "--hash-log"),
                enumerate: flag(&args, "--enumerate"),
            })
        }
        "minimise" => {
            // dsim minimise <replay file> [max execs] [max secs]: shrink its choice list in place
            let path = args.get(2).expect("replay file");
            let mut rf = runner::ReplayFile::load(path).expect("load");
            let me = std::env::current_exe().unwrap().to_string_lossy().to_string();
            let mut ex = runner::ExecClient::new(&me, &rf.sim);
            let n0 = rf.choices.len();
            let t0 = std::time::Instant::now();
            let min = runner::minimise(&mut ex, &rf.choices, &rf.violation.class, args.get(3).and_then(|s| s.parse().ok()).unwrap_or(3000), args.get(4).and_then(|s| s.parse().ok()).unwrap_or(60.0));
            println!("minimised {} -> {} choices in {} executions, {:.1}s", n0, min.len(), ex.executions, t0.elapsed().as_secs_f64());
            rf.choices = min;
            rf.minimised = true;
            rf.save(path).expect("save");
            0
        }
        "list-sims" => {
            println!("{}", SIMS.iter().map(|s| s.name).collect::<Vec<_>>().join(" "));
            0
        }
        "exec-server" => {
            init_worker_process();
            let sim = find_sim(&arg(&args, "--sim").unwrap_or_default()).expect("unknown sim");
            runner::exec_server(sim)
        }
        "one" => {
            init_worker_process();
            let sim = find_sim(&arg(&args, "--sim").unwrap_or_default()).expect("unknown sim");
            let seed: u64 = arg(&args, "--seed").and_then(|s| s.parse().ok()).unwrap_or(0);
            let run: u64 = arg(&args, "--run").and_then(|s| s.parse().ok()).unwrap_or(0);
            runner::CURRENT_RUN.store(run as i64, std::sync::atomic::Ordering::SeqCst);
            if let Some(f) = arg(&args, "--choices-out") {
                // stream every choice to a file as it is drawn (survives a crash)
                let c = std::ffi::CString::new(f).unwrap();
                let fd = unsafe { libc::open(c.as_ptr(), libc::O_WRONLY | libc::O_CREAT | libc::O_TRUNC, 0o644) };
                choice::set_live_fd(fd);
            }
            trace::set_live(true);
            let r = runner::execute(sim, Source::Seeded(choice::run_seed(seed, sim.name, run)), true);
            println!("CHOICES {}", r.choices.iter().map(|c| c.to_string()).collect::<Vec<_>>().join(" "));
            match r.violation {
                Some(v) => {
                    println!("RESULT class={} detail={}", v.class, v.detail);
                    1
                }
                None => {
                    println!("RESULT ok trace_hash={:016x}", r.trace.hash);
                    0
                }
            }
        }
        "miri-batch" => {
            // second engine: run under `cargo miri run`; Miri's seed decides preemption, weak-memory
            // loads and spurious weak-CAS failures. No hooks, no baton, no simulated heap.
            runner::install_panic_hook();
            sched::set_baton(false);
            let count: u64 = arg(&args, "--count").and_then(|s| s.parse().ok()).unwrap_or(4);
            // derive the scenario seed from Miri's own seeded RNG (deterministic per -Zmiri-seed)
            let base: u64 = match arg(&args, "--scenario-seed").and_then(|s| s.parse().ok()) {
                Some(b) => b,
                None => {
                    use std::hash::{BuildHasher, Hasher};
                    std::collections::hash_map::RandomState::new().build_hasher().finish()
                }
            };
            let sim = find_sim(&arg(&args, "--sim").unwrap_or_else(|| "cache".into())).expect("unknown sim");
            let mut code = 0;
            for i in 0..count {
                let r = runner::execute(sim, Source::Seeded(choice::run_seed(base, sim.name, i)), false);
                match r.violation {
                    Some(v) => {
                        println!("MIRI-VIOLATION scenario_seed={} index={} class={} detail={}", base, i, v.class, v.detail);
                        code = 1;
                        break;
                    }
                    None => println!("MIRI-OK scenario_seed={} index={} choices={}", base, i, r.choices.len()),
                }
            }
            code
        }
        "replay" => {
            init_worker_process();
            let path = args.get(2).expect("replay file");
            let rf = match runner::ReplayFile::load(path) {
                Ok(r) => r,
                Err(e) => {
                    eprintln!("HARNESS-ERROR {}", e);
                    std::process::exit(2);
                }
            };
            if rf.config != config_name() && !flag(&args, "--any-config") {
                eprintln!("NOTE replay file was recorded with config={}, this binary is {}", rf.config, config_name());
            }
            let sim = find_sim(&rf.sim).expect("unknown sim in replay file");
            runner::CURRENT_RUN.store(rf.run, std::sync::atomic::Ordering::SeqCst);
            trace::set_live(true);
            let r = runner::execute(sim, Source::Replay(&rf.choices), true);
            match r.violation {
                Some(v) => {
                    println!("REPLAY class={} detail={}", v.class, v.detail);
                    if runner::same_class(&v.class, &rf.violation.class) {
                        println!("REPRODUCED property={} class={}", rf.property, v.class);
                        1
                    } else {
                        println!("DIFFERENT-VIOLATION expected class={}", rf.violation.class);
                        3
                    }
                }
                None => {
                    println!("REPLAY ok (no violation)");
                    0
                }
            }
        }
        _ => {
            eprintln!("usage: dsim supervise|worker|replay|exec-server|one ...");
            2
        }
    };
    std::process::exit(code);
}
