//! Fatal-signal handlers: a crash inside the library (null or dangling dereference, guard
//! page hit, abort, stack overflow) is reported on stdout as `CRASH run=<i> sig=<n>` and ends
//! the process with exit code 101; the supervisor turns that into a violation.

use std::sync::atomic::Ordering;

extern "C" fn on_signal(sig: libc::c_int, _info: *mut libc::siginfo_t, _ctx: *mut libc::c_void) {
    let run = crate::runner::CURRENT_RUN.load(Ordering::SeqCst);
    let mut buf = [0u8; 96];
    let mut n = 0;
    let mut put = |s: &[u8], buf: &mut [u8; 96], n: &mut usize| {
        for &b in s {
            if *n < buf.len() {
                buf[*n] = b;
                *n += 1;
            }
        }
    };
    put(b"\nCRASH run=", &mut buf, &mut n);
    let mut digits = [0u8; 24];
    let mut k = 0;
    let mut v = if run < 0 { 0u64 } else { run as u64 };
    if run < 0 {
        put(b"-", &mut buf, &mut n);
        v = (-run) as u64;
    }
    loop {
        digits[k] = b'0' + (v % 10) as u8;
        k += 1;
        v /= 10;
        if v == 0 {
            break;
        }
    }
    while k > 0 {
        k -= 1;
        put(&digits[k..k + 1], &mut buf, &mut n);
    }
    put(b" sig=", &mut buf, &mut n);
    let s = sig as u32;
    if s >= 10 {
        put(&[b'0' + (s / 10) as u8], &mut buf, &mut n);
    }
    put(&[b'0' + (s % 10) as u8], &mut buf, &mut n);
    put(b"\n", &mut buf, &mut n);
    unsafe {
        libc::write(1, buf.as_ptr() as *const _, n);
        libc::_exit(101);
    }
}

pub fn install() {
    unsafe {
        // alternate stack for the main thread (std gives spawned threads their own)
        let size = 1 << 16;
        let stack = libc::mmap(
            std::ptr::null_mut(),
            size,
            libc::PROT_READ | libc::PROT_WRITE,
            libc::MAP_PRIVATE | libc::MAP_ANONYMOUS,
            -1,
            0,
        );
        let ss = libc::stack_t { ss_sp: stack, ss_flags: 0, ss_size: size };
        libc::sigaltstack(&ss, std::ptr::null_mut());
        for sig in [libc::SIGSEGV, libc::SIGBUS, libc::SIGABRT, libc::SIGILL, libc::SIGFPE] {
            let mut sa: libc::sigaction = std::mem::zeroed();
            sa.sa_sigaction = on_signal as usize;
            sa.sa_flags = libc::SA_SIGINFO | libc::SA_ONSTACK;
            libc::sigemptyset(&mut sa.sa_mask);
            libc::sigaction(sig, &sa, std::ptr::null_mut());
        }
    }
}
