//! Per-run trace (hashed always, kept as text only when recording) and process-wide counters.
//! Logging never draws from the choice stream and never reads a clock.

use std::fmt::Write;
use std::sync::atomic::{AtomicU64, Ordering};
use std::sync::Mutex;

pub struct Trace {
    pub hash: u64,
    pub sched_hash: u64, // hash of the (thread, site) sequence only
    pub nontrivial: bool,
    pub events: u64,
    pub record: bool,
    pub lines: Vec<String>,
    buf: String,
}

static TRACE: Mutex<Trace> = Mutex::new(Trace {
    hash: 0,
    sched_hash: 0,
    nontrivial: false,
    events: 0,
    record: false,
    lines: Vec::new(),
    buf: String::new(),
});

static LIVE: std::sync::atomic::AtomicBool = std::sync::atomic::AtomicBool::new(false);
pub fn set_live(on: bool) {
    LIVE.store(on, Ordering::SeqCst);
}

fn fnv(mut h: u64, bytes: &[u8]) -> u64 {
    for &b in bytes {
        h = (h ^ b as u64).wrapping_mul(0x100_0000_01b3);
    }
    h
}

pub fn begin(record: bool) {
    let mut t = TRACE.lock().unwrap_or_else(|e| e.into_inner());
    t.hash = 0xcbf2_9ce4_8422_2325;
    t.sched_hash = 0xcbf2_9ce4_8422_2325;
    t.nontrivial = false;
    t.events = 0;
    t.record = record;
    t.lines.clear();
}

/// Add an event to the run's trace.
pub fn ev(args: std::fmt::Arguments) {
    if !crate::sched::baton() {
        // free-running mode (Miri): no locks here, they would add happens-before edges between
        // the simulated threads and hide data races
        return;
    }
    crate::heap::harness(|| {
        let mut t = TRACE.lock().unwrap_or_else(|e| e.into_inner());
        let t = &mut *t;
        t.buf.clear();
        let _ = t.buf.write_fmt(args);
        t.hash = fnv(t.hash, t.buf.as_bytes());
        t.hash = fnv(t.hash, b"\n");
        t.events += 1;
        if t.record && t.lines.len() < 4000 {
            if LIVE.load(Ordering::Relaxed) {
                // replay mode: print at once, so that a crash still shows the trace up to it
                use std::io::Write as _;
                let so = std::io::stdout();
                let mut so = so.lock();
                let _ = writeln!(so, "{}", t.buf);
                let _ = so.flush();
            }
            t.lines.push(t.buf.clone());
        }
    })
}

#[macro_export]
macro_rules! tr {
    ($($arg:tt)*) => { $crate::trace::ev(format_args!($($arg)*)) };
}

pub fn sched_step(thread: usize, site: u16, switched: bool) {
    let mut t = TRACE.lock().unwrap_or_else(|e| e.into_inner());
    let b = [thread as u8, site as u8, (site >> 8) as u8, switched as u8];
    t.sched_hash = fnv(t.sched_hash, &b);
}

/// Mark the run as non-trivial (a context switch, an injected fault or a mutating
/// operation actually happened).
pub fn nontrivial() {
    let mut t = TRACE.lock().unwrap_or_else(|e| e.into_inner());
    t.nontrivial = true;
}

pub struct Summary {
    pub hash: u64,
    pub sched_hash: u64,
    pub nontrivial: bool,
    pub events: u64,
    pub lines: Vec<String>,
}

pub fn end() -> Summary {
    let mut t = TRACE.lock().unwrap_or_else(|e| e.into_inner());
    Summary {
        hash: t.hash,
        sched_hash: t.sched_hash,
        nontrivial: t.nontrivial,
        events: t.events,
        lines: std::mem::take(&mut t.lines),
    }
}

// ------------------------------------------------------------------------------------------
// counters

macro_rules! counters {
    ($($name:ident),* $(,)?) => {
        #[allow(non_camel_case_types)]
        #[derive(Clone, Copy, Debug, PartialEq, Eq)]
        #[repr(usize)]
        pub enum C { $($name),*, _COUNT }
        pub const COUNTER_NAMES: &[&str] = &[$(stringify!($name)),*];
    };
}

counters! {
    // scheduler
    sched_steps, context_switches, threads_spawned,
    // atomics (C18)
    fault_spurious_cas, cas_lost_real_race, cas_won, load_hit_published, loser_freed,
    clone_saw_published_cache, clone_saw_empty_cache, lazy_cache_scen, owned_cache_scen,
    // arena (C16)
    arena_created, arena_dropped, arena_outlived_root, arena_freed_on_foreign_thread,
    tls_buffer_reused, tls_heap_fallback, value_sent_to_thread, value_dropped_foreign,
    to_mut_promotion, cross_arena_insert, stream_values, deser_dropped_before_values,
    // writers (C05)
    fault_short_write, fault_eintr, fault_permanent_error, fault_ok0, fault_flush_error,
    fault_reserve_error, fault_flush_len_error, fault_never_reached, fault_free_runs, faulted_runs,
    guard_window_reserves, guarded_str_used, guarded_str_near_page_end, bufwriter_held_bytes_at_reserve,
    ser_err_expected, ser_ok, pretty_runs, compact_runs, strings_serialized, escapes_serialized,
    stack_vec, stack_vec_mut, stack_box_vec, stack_bytesmut, stack_bytesmut_mut, stack_buffered,
    stack_iobuf_vec, stack_iobuf_buffered, stack_guard_window, stack_to_string, stack_to_vec,
    // lazy (C13)
    lazy_handles, lazy_steps, lazy_mutations, lazy_clones, lazy_conversions, lazy_literals,
    lazy_escaped_strings, lazy_route_get, lazy_route_iter, lazy_route_serde, lazy_route_owned_serde,
    lazy_route_from_lazy, lazy_route_to_lazyvalue, lazy_route_get_many, lazy_reserialize,
    // dom (C15)
    dom_steps, dom_mutations, dom_rejected_ops, dom_panics_expected, dom_clones, dom_takes,
    dom_pool_compares, dom_parsed_roots, dom_built_values, dom_cross_assign,
    // generic
    heap_leak_reexec, oracle_compares, runs_nontrivial, heap_reuse_runs, heap_blocks_reused, arena_handoffs,
    dom_typed_handle_entries, post_cas_yields, value_dropped_unwinding,
}

static COUNTERS: [AtomicU64; C::_COUNT as usize] = {
    const Z: AtomicU64 = AtomicU64::new(0);
    [Z; C::_COUNT as usize]
};

#[inline]
pub fn bump(c: C) {
    COUNTERS[c as usize].fetch_add(1, Ordering::Relaxed);
}
#[inline]
pub fn add(c: C, n: u64) {
    COUNTERS[c as usize].fetch_add(n, Ordering::Relaxed);
}
pub fn get(c: C) -> u64 {
    COUNTERS[c as usize].load(Ordering::Relaxed)
}
pub fn snapshot() -> Vec<(&'static str, u64)> {
    COUNTER_NAMES
        .iter()
        .enumerate()
        .map(|(i, n)| (*n, COUNTERS[i].load(Ordering::Relaxed)))
        .collect()
}
