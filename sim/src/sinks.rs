//! I/O seams for C05: the fault-injecting sink ("disk/network"), a custom `WriteExt` writer whose
//! reserved window ends exactly at a PROT_NONE page, and source strings placed right before a
//! PROT_NONE page.

use std::io;
use std::mem::MaybeUninit;
use std::sync::atomic::{AtomicUsize, Ordering};

use sonic_rs::writer::WriteExt;

use crate::choice::draw;
use crate::trace::{self, C};

pub const PAGE: usize = 4096;

#[derive(Clone, Copy, Debug, PartialEq, Eq)]
pub enum Permanent {
    None,
    /// accept exactly `n` bytes in total (the crossing call is a short write), then fail every call
    ErrAfterBytes(usize, io::ErrorKind),
    /// accept exactly `n` bytes in total, then return Ok(0) forever
    ZeroAfterBytes(usize),
    /// fail the call with this index (0-based, counting calls that are not transient faults) and all later ones
    ErrAtCall(usize, io::ErrorKind),
}

#[derive(Clone, Debug)]
pub struct FaultPlan {
    pub permanent: Permanent,
    /// transient faults: drawn per call; 0 = never, else 1 in `x`
    pub short_write_1_in: u32,
    pub eintr_1_in: u32,
}

impl FaultPlan {
    pub fn none() -> Self {
        FaultPlan { permanent: Permanent::None, short_write_1_in: 0, eintr_1_in: 0 }
    }
}

/// The "disk": records every byte it accepted and every error it returned.
pub struct FaultySink {
    pub plan: FaultPlan,
    pub accepted: Vec<u8>,
    pub calls: usize,
    pub permanent_errors_returned: usize,
    pub short_writes: usize,
    pub eintrs: usize,
    pub zero_returns: usize,
    eintr_in_a_row: u32,
    /// permanent faults returned so far (shared, so the harness can look while the sink is borrowed)
    pub faults: std::sync::Arc<AtomicUsize>,
}

impl FaultySink {
    pub fn new(plan: FaultPlan) -> Self {
        FaultySink { plan, accepted: Vec::new(), calls: 0, permanent_errors_returned: 0, short_writes: 0, eintrs: 0, zero_returns: 0, eintr_in_a_row: 0, faults: std::sync::Arc::new(AtomicUsize::new(0)) }
    }
    pub fn fault_reached(&self) -> bool {
        self.permanent_errors_returned > 0 || self.zero_returns > 0
    }
}

impl io::Write for FaultySink {
    fn write(&mut self, buf: &[u8]) -> io::Result<usize> {
        crate::heap::harness(|| {
            if buf.is_empty() {
                return Ok(0);
            }
            // transient: EINTR (write_all must retry); never more than 3 in a row
            if self.plan.eintr_1_in > 0 && self.eintr_in_a_row < 3 && draw(self.plan.eintr_1_in) == self.plan.eintr_1_in - 1 {
                self.eintr_in_a_row += 1;
                self.eintrs += 1;
                trace::bump(C::fault_eintr);
                trace::nontrivial();
                return Err(io::Error::new(io::ErrorKind::Interrupted, "injected EINTR"));
            }
            self.eintr_in_a_row = 0;
            let call = self.calls;
            self.calls += 1;
            let mut n = buf.len();
            match self.plan.permanent {
                Permanent::ErrAtCall(c, kind) if call >= c => {
                    self.permanent_errors_returned += 1;
                    self.faults.fetch_add(1, Ordering::SeqCst);
                    trace::bump(C::fault_permanent_error);
                    trace::nontrivial();
                    return Err(io::Error::new(kind, "injected permanent error"));
                }
                Permanent::ErrAfterBytes(limit, kind) => {
                    let room = limit.saturating_sub(self.accepted.len());
                    if room == 0 {
                        self.permanent_errors_returned += 1;
                        self.faults.fetch_add(1, Ordering::SeqCst);
                        trace::bump(C::fault_permanent_error);
                        trace::nontrivial();
                        return Err(io::Error::new(kind, "injected permanent error"));
                    }
                    n = n.min(room);
                }
                Permanent::ZeroAfterBytes(limit) => {
                    let room = limit.saturating_sub(self.accepted.len());
                    if room == 0 {
                        self.zero_returns += 1;
                        self.faults.fetch_add(1, Ordering::SeqCst);
                        trace::bump(C::fault_ok0);
                        trace::nontrivial();
                        return Ok(0);
                    }
                    n = n.min(room);
                }
                _ => {}
            }
            // transient: short write
            if n > 1 && self.plan.short_write_1_in > 0 && draw(self.plan.short_write_1_in) == self.plan.short_write_1_in - 1 {
                n = 1 + draw(n as u32 - 1) as usize;
                self.short_writes += 1;
                trace::bump(C::fault_short_write);
                trace::nontrivial();
            }
            self.accepted.extend_from_slice(&buf[..n]);
            Ok(n)
        })
    }

    fn flush(&mut self) -> io::Result<()> {
        Ok(())
    }
}

// ------------------------------------------------------------------------------------------
// guard mappings

unsafe fn map_with_guard(data_pages: usize) -> *mut u8 {
    let total = (data_pages + 1) * PAGE;
    let p = libc::mmap(std::ptr::null_mut(), total, libc::PROT_READ | libc::PROT_WRITE, libc::MAP_PRIVATE | libc::MAP_ANONYMOUS, -1, 0);
    if p == libc::MAP_FAILED {
        eprintln!("HARNESS-ERROR mmap failed");
        libc::_exit(2);
    }
    let guard = (p as *mut u8).add(data_pages * PAGE);
    if libc::mprotect(guard as *mut _, PAGE, libc::PROT_NONE) != 0 {
        eprintln!("HARNESS-ERROR mprotect failed");
        libc::_exit(2);
    }
    p as *mut u8
}

const WINDOW_PAGES: usize = 32; // 128 KiB window at most

static WINDOW_BASE: AtomicUsize = AtomicUsize::new(0);

fn window_base() -> *mut u8 {
    let b = WINDOW_BASE.load(Ordering::SeqCst);
    if b != 0 {
        return b as *mut u8;
    }
    let p = unsafe { map_with_guard(WINDOW_PAGES) };
    WINDOW_BASE.store(p as usize, Ordering::SeqCst);
    p
}

/// A user-written `WriteExt` (the trait is public): `reserve_with(n)` hands out exactly `n` bytes
/// whose last byte is the last byte before a PROT_NONE page, so writing even one byte past the
/// reserved window faults deterministically. `flush_len(m)` forwards the first `m` bytes.
pub struct GuardWindowWriter<W: io::Write> {
    pub inner: W,
    reserved: Option<usize>,
    pub protocol_violation: Option<String>,
    pub fail_reserve_at: Option<usize>, // fail the k-th reserve_with
    pub fail_flush_len_at: Option<usize>,
    pub reserves: usize,
    pub flushes: usize,
    pub errors_returned: usize,
    big: Vec<u8>,
}

impl<W: io::Write> GuardWindowWriter<W> {
    pub fn new(inner: W) -> Self {
        GuardWindowWriter { inner, reserved: None, protocol_violation: None, fail_reserve_at: None, fail_flush_len_at: None, reserves: 0, flushes: 0, errors_returned: 0, big: Vec::new() }
    }
}

impl<W: io::Write> io::Write for GuardWindowWriter<W> {
    fn write(&mut self, buf: &[u8]) -> io::Result<usize> {
        self.inner.write(buf)
    }
    fn flush(&mut self) -> io::Result<()> {
        self.inner.flush()
    }
}

impl<W: io::Write> WriteExt for GuardWindowWriter<W> {
    fn reserve_with(&mut self, additional: usize) -> io::Result<&mut [MaybeUninit<u8>]> {
        let k = self.reserves;
        self.reserves += 1;
        trace::bump(C::guard_window_reserves);
        if self.fail_reserve_at == Some(k) {
            self.errors_returned += 1;
            trace::bump(C::fault_reserve_error);
            trace::nontrivial();
            return Err(io::Error::new(io::ErrorKind::Other, "injected reserve_with error"));
        }
        self.reserved = Some(additional);
        if cfg!(miri) {
            // under Miri: an allocation of exactly the requested size, left UNINITIALISED: Miri itself
            // reports any access past it and any uninitialised byte that flush_len later commits
            let mut v: Vec<u8> = Vec::with_capacity(additional);
            let p = v.as_mut_ptr() as *mut MaybeUninit<u8>;
            self.big = v;
            return Ok(unsafe { std::slice::from_raw_parts_mut(p, additional) });
        }
        if additional > WINDOW_PAGES * PAGE {
            // too big for the guarded window: plain buffer of exactly the requested size
            self.big = crate::heap::harness(|| vec![0xAAu8; additional]);
            let p = self.big.as_mut_ptr() as *mut MaybeUninit<u8>;
            return Ok(unsafe { std::slice::from_raw_parts_mut(p, additional) });
        }
        let base = window_base();
        unsafe {
            let end = base.add(WINDOW_PAGES * PAGE);
            let start = end.sub(additional);
            std::ptr::write_bytes(start, 0xAA, additional);
            Ok(std::slice::from_raw_parts_mut(start as *mut MaybeUninit<u8>, additional))
        }
    }

    unsafe fn flush_len(&mut self, additional: usize) -> io::Result<()> {
        let k = self.flushes;
        self.flushes += 1;
        let Some(res) = self.reserved.take() else {
            self.protocol_violation = Some(format!("flush_len({}) without a preceding reserve_with", additional));
            return Ok(());
        };
        if additional > res {
            self.protocol_violation = Some(format!("flush_len({}) exceeds the reserved {} bytes", additional, res));
            return Ok(());
        }
        if self.fail_flush_len_at == Some(k) {
            self.errors_returned += 1;
            trace::bump(C::fault_flush_len_error);
            trace::nontrivial();
            return Err(io::Error::new(io::ErrorKind::Other, "injected flush_len error"));
        }
        let data: &[u8] = if cfg!(miri) {
            std::slice::from_raw_parts(self.big.as_ptr(), additional)
        } else if res > WINDOW_PAGES * PAGE {
            &self.big[..additional]
        } else {
            let end = window_base().add(WINDOW_PAGES * PAGE);
            std::slice::from_raw_parts(end.sub(res), additional)
        };
        // copy out first: `inner` may be anything
        let copy = crate::heap::harness(|| data.to_vec());
        let r = self.inner.write_all(&copy);
        crate::heap::harness(move || drop(copy));
        r
    }
}

// ------------------------------------------------------------------------------------------
// guarded source strings

const SLOTS: usize = 96;
const SLOT_DATA_PAGES: usize = 6;
static SLOT_BASE: AtomicUsize = AtomicUsize::new(0);
static SLOT_NEXT: AtomicUsize = AtomicUsize::new(0);

fn slot_base() -> *mut u8 {
    let b = SLOT_BASE.load(Ordering::SeqCst);
    if b != 0 {
        return b as *mut u8;
    }
    unsafe {
        // SLOTS x (data pages + guard page)
        let stride = (SLOT_DATA_PAGES + 1) * PAGE;
        let total = SLOTS * stride;
        let p = libc::mmap(std::ptr::null_mut(), total, libc::PROT_READ | libc::PROT_WRITE, libc::MAP_PRIVATE | libc::MAP_ANONYMOUS, -1, 0);
        if p == libc::MAP_FAILED {
            eprintln!("HARNESS-ERROR mmap failed");
            libc::_exit(2);
        }
        for s in 0..SLOTS {
            let guard = (p as *mut u8).add(s * stride + SLOT_DATA_PAGES * PAGE);
            if libc::mprotect(guard as *mut _, PAGE, libc::PROT_NONE) != 0 {
                eprintln!("HARNESS-ERROR mprotect failed");
                libc::_exit(2);
            }
        }
        SLOT_BASE.store(p as usize, Ordering::SeqCst);
        p as *mut u8
    }
}

pub fn reset_guard_slots() {
    SLOT_NEXT.store(0, Ordering::SeqCst);
}

/// A string whose bytes end `dist` bytes before a PROT_NONE page (or an ordinary heap string when
/// the guarded slots are used up or the string is too long).
pub enum GStr {
    Guarded { ptr: *const u8, len: usize, dist: usize },
    Heap(String),
}

unsafe impl Send for GStr {}
unsafe impl Sync for GStr {}

impl GStr {
    pub fn new(s: &str, dist: usize) -> GStr {
        if cfg!(miri) {
            // Miri checks the bounds of the exact allocation itself
            return GStr::Heap(s.to_string());
        }
        let slot = SLOT_NEXT.load(Ordering::SeqCst);
        if slot >= SLOTS || s.len() + dist > SLOT_DATA_PAGES * PAGE {
            return GStr::Heap(s.to_string());
        }
        SLOT_NEXT.store(slot + 1, Ordering::SeqCst);
        trace::bump(C::guarded_str_used);
        if dist < 32 {
            trace::bump(C::guarded_str_near_page_end);
        }
        unsafe {
            let stride = (SLOT_DATA_PAGES + 1) * PAGE;
            let guard = slot_base().add(slot * stride + SLOT_DATA_PAGES * PAGE);
            let start = guard.sub(dist + s.len());
            // bytes after the string (up to the guard page) look like something that needs escaping,
            // so an escaper that looks past the end would produce different output
            std::ptr::write_bytes(guard.sub(dist), b'"', dist);
            std::ptr::copy_nonoverlapping(s.as_ptr(), start, s.len());
            GStr::Guarded { ptr: start, len: s.len(), dist }
        }
    }
    pub fn as_str(&self) -> &str {
        match self {
            GStr::Guarded { ptr, len, .. } => unsafe { std::str::from_utf8_unchecked(std::slice::from_raw_parts(*ptr, *len)) },
            GStr::Heap(s) => s.as_str(),
        }
    }
}

impl std::fmt::Debug for GStr {
    fn fmt(&self, f: &mut std::fmt::Formatter<'_>) -> std::fmt::Result {
        match self {
            GStr::Guarded { len, dist, .. } => write!(f, "{:?}@len{}dist{}", self.as_str(), len, dist),
            GStr::Heap(s) => write!(f, "{:?}", s),
        }
    }
}
