//! C15 — the mutable DOM against a plain array/map model under operation histories.
//!
//! A pool of live `(Value, model)` pairs; a drawn history over the public mutation API; after
//! every step the operation's result is compared with the model's and ALL pool members are
//! dumped through the public read API and compared with their models (so a mutation that leaks
//! into another value — the document it was cloned from, an earlier clone — is seen).

use serde::Deserialize;
use sonic_rs::{array, json, object, Array, FastStr, JsonContainerTrait, JsonValueMutTrait, JsonValueTrait, Object, PointerNode, Value};

use crate::choice::{chance, draw, pick, range};
use crate::gen::{self, GenCfg, Step, Style};
use crate::oracle;
use crate::refjson::{Kind, J};
use crate::runner::{libcall, libcall_may_panic, SimResult, Violation};
use crate::tr;
use crate::trace::{self, C};

struct Slot {
    v: Value,
    m: J,
}

#[derive(Deserialize)]
struct Wrapper {
    v: Value,
}

fn f64_lit(f: f64) -> String {
    format!("{:?}", f)
}

/// a fresh value (with its model) built by macros / conversions / parsing
fn new_value(cfg: &GenCfg) -> Result<(Value, J), Violation> {
    trace::bump(C::dom_built_values);
    Ok(match draw(32) {
        0 => (Value::new(), J::Null),
        1 => {
            let b = draw(2) == 1;
            (Value::from(b), J::Bool(b))
        }
        2 => {
            let n = draw(1000) as u64;
            (Value::from(n), J::Num(n.to_string()))
        }
        3 => {
            let n = -(draw(1000) as i64) - 1;
            (Value::from(n), J::Num(n.to_string()))
        }
        4 => {
            let f = (draw(2001) as f64 - 1000.0) / 8.0;
            (Value::try_from(f).unwrap(), J::Num(f64_lit(f)))
        }
        5 => {
            let s = gen::gen_string(cfg);
            (Value::from(s.as_str()), J::Str(s))
        }
        6 => {
            let s = gen::gen_string(cfg);
            (Value::from(FastStr::new(&s)), J::Str(s))
        }
        7 => (Value::from_static_str("static"), J::Str("static".into())),
        8 => (Value::new_array(), J::Arr(vec![])),
        9 => (Value::new_object(), J::Obj(vec![])),
        10 => (Array::new().into_value(), J::Arr(vec![])),
        11 => (Object::new().into_value(), J::Obj(vec![])),
        12 => (
            json!({"a": 1, "b": [true, null, "x"], "c": {"d": -2.5}}),
            J::Obj(vec![
                ("a".into(), J::Num("1".into())),
                ("b".into(), J::Arr(vec![J::Bool(true), J::Null, J::Str("x".into())])),
                ("c".into(), J::Obj(vec![("d".into(), J::Num("-2.5".into()))])),
            ]),
        ),
        13 => (array![1, "two", [3], {"four": 4}].into_value(), J::Arr(vec![J::Num("1".into()), J::Str("two".into()), J::Arr(vec![J::Num("3".into())]), J::Obj(vec![("four".into(), J::Num("4".into()))])])),
        14 => (object! {"k": "v", "n": null}.into_value(), J::Obj(vec![("k".into(), J::Str("v".into())), ("n".into(), J::Null)])),
        24 => {
            // json! with interpolated expressions (variables, nested macro values, computed keys)
            let n = draw(100) as u64;
            let s = gen::gen_string(cfg);
            let inner = json!([n, s.as_str(), null]);
            let key = format!("k{}", n % 3);
            let v = json!({"n": n, "s": s.clone(), "inner": inner, key.as_str(): [true, {"deep": n}], "neg": -1, "f": 2.5});
            let m = J::Obj(vec![
                ("n".into(), J::Num(n.to_string())),
                ("s".into(), J::Str(s.clone())),
                ("inner".into(), J::Arr(vec![J::Num(n.to_string()), J::Str(s), J::Null])),
                (key, J::Arr(vec![J::Bool(true), J::Obj(vec![("deep".into(), J::Num(n.to_string()))])])),
                ("neg".into(), J::Num("-1".into())),
                ("f".into(), J::Num("2.5".into())),
            ]);
            (v, m)
        }
        25 => {
            // to_value of a model value (the Value serializer: owned nodes)
            let j = gen::gen_j(cfg);
            let v = libcall("to_value", || sonic_rs::to_value(&crate::jser::SerJ(&j)))?.map_err(|e| Violation::new("dom/to_value", format!("to_value failed: {}", e)))?;
            (v, canonical_numbers(&j))
        }
        30 => {
            // constructors with a capacity (0 included): empty containers that already own storage
            let cap = *pick(&[0usize, 0, 1, 4, 33]);
            match draw(4) {
                0 => (Array::with_capacity(cap).into_value(), J::Arr(vec![])),
                1 => (Object::with_capacity(cap).into_value(), J::Obj(vec![])),
                2 => (Array::new().into_value(), J::Arr(vec![])),
                _ => (Object::new().into_value(), J::Obj(vec![])),
            }
        }
        26 => {
            // an owned raw number: RawNumber -> to_value keeps the literal in a FastStr node
            let lit = gen::gen_number();
            let rn = libcall("from_str::<RawNumber>", || sonic_rs::from_str::<sonic_rs::RawNumber>(&lit))?.map_err(|e| Violation::new("mismatch/parse-error", format!("from_str::<RawNumber>({:?}) failed: {}", lit, e)))?;
            let v = libcall("to_value(RawNumber)", || sonic_rs::to_value(&rn))?.map_err(|e| Violation::new("dom/to_value", format!("to_value(RawNumber {:?}) failed: {}", lit, e)))?;
            (v, J::Num(lit))
        }
        27 => {
            // FromStr is documented as "a string value holding a copy of the text", not as a parse
            let s = gen::gen_string(cfg);
            let v = libcall("str::parse::<Value>", || s.parse::<Value>())?.map_err(|_| Violation::new("dom/FromStr", "parse::<Value> failed"))?;
            (v, J::Str(s))
        }
        28 => match draw(3) {
            0 => {
                if Value::new_f64(f64::NAN).is_some() || Value::new_f64(f64::NEG_INFINITY).is_some() {
                    return Err(Violation::new("dom/new_f64", "new_f64 accepted a non-finite number"));
                }
                (Value::new_f64(2.5).expect("finite"), J::Num("2.5".into()))
            }
            1 => (Value::new_f64(-0.0).expect("finite"), J::Num("-0.0".into())),
            _ => (Value::new_f64(1e300).expect("finite"), J::Num("1e300".into())),
        },
        16 => {
            if draw(2) == 0 {
                (Value::from(Some(5u64)), J::Num("5".into()))
            } else {
                (Value::from(None::<u64>), J::Null)
            }
        }
        17 => (Value::from(std::borrow::Cow::Borrowed("cow")), J::Str("cow".into())),
        18 => {
            let c = gen::gen_char(cfg.classes);
            (Value::from(c), J::Str(c.to_string()))
        }
        19 => (Value::from(&[1u64, 2, 3][..]), J::Arr(vec![J::Num("1".into()), J::Num("2".into()), J::Num("3".into())])),
        20 => (Value::from(&[true, false]), J::Arr(vec![J::Bool(true), J::Bool(false)])),
        21 => {
            let one = Value::from(1u64);
            let s = Value::from("s");
            // a repeated key: the last value wins, as in a map built by successive inserts
            let two = Value::from(2u64);
            let v: Value = vec![("a", &one), ("b", &s), ("a", &two)].into_iter().collect();
            (v, J::Obj(vec![("a".into(), J::Num("2".into())), ("b".into(), J::Str("s".into()))]))
        }
        22 => {
            let n = draw(4) as u64;
            let a: Array = (0..n).collect();
            (a.into_value(), J::Arr((0..n).map(|k| J::Num(k.to_string())).collect()))
        }
        23 => {
            let t = Value::from(true);
            let mut o: Object = vec![("x", &t)].into_iter().collect();
            let z = 0u64;
            o.extend(vec![("y", &z), ("x", &z)]);
            (o.into_value(), J::Obj(vec![("x".into(), J::Num("0".into())), ("y".into(), J::Num("0".into()))]))
        }
        _ => {
            let j = gen::gen_j(cfg);
            let text = gen::render(&j, &Style { ws: draw(3), esc: draw(2) });
            let v = libcall("from_str", || sonic_rs::from_str::<Value>(&text))?.map_err(|e| Violation::new("mismatch/parse-error", format!("from_str failed on {:?}: {}", oracle::truncate(&text), e)))?;
            gen::scrub(text);
            (v, j)
        }
    })
}

/// numbers as the serde data model carries them (u64 / i64 / f64): the literal spelling is gone
fn canonical_numbers(j: &J) -> J {
    match j {
        J::Num(n) => J::Num(crate::refjson::num_canon(n).trim_end_matches('f').to_string()),
        J::Arr(a) => J::Arr(a.iter().map(canonical_numbers).collect()),
        J::Obj(m) => J::Obj(m.iter().map(|(k, v)| (k.clone(), canonical_numbers(v))).collect()),
        other => other.clone(),
    }
}

fn parsed_start(cfg: &GenCfg) -> Result<(Value, J), Violation> {
    trace::bump(C::dom_parsed_roots);
    let j = if chance(1, 6) { gen::gen_scalar(cfg) } else { gen::gen_container(cfg) };
    let text = gen::render(&j, &Style { ws: draw(3), esc: draw(3) });
    let v = if chance(1, 5) {
        // numbers kept as their literal text (raw-number nodes)
        libcall("use_rawnumber", || sonic_rs::Deserializer::from_str(&text).use_rawnumber().deserialize::<Value>())?.map_err(|e| Violation::new("mismatch/parse-error", format!("use_rawnumber failed on {:?}: {}", oracle::truncate(&text), e)))?
    } else if draw(3) == 0 {
        // the copying path (value embedded in a struct)
        let wrapped = format!("{{\"v\": {}}}", text);
        libcall("from_str::<Wrapper>", || sonic_rs::from_str::<Wrapper>(&wrapped))?.map_err(|e| Violation::new("mismatch/parse-error", format!("from_str failed on {:?}: {}", oracle::truncate(&wrapped), e)))?.v
    } else {
        libcall("from_str", || sonic_rs::from_str::<Value>(&text))?.map_err(|e| Violation::new("mismatch/parse-error", format!("from_str failed on {:?}: {}", oracle::truncate(&text), e)))?
    };
    tr!("  start: parsed {}", oracle::truncate(&text));
    gen::scrub(text);
    Ok((v, j))
}

fn nav_mut<'a>(v: &'a mut Value, path: &[Step]) -> Option<&'a mut Value> {
    if path.is_empty() {
        Some(v)
    } else {
        v.pointer_mut(&gen::to_pointer(path))
    }
}

fn paths_of_kind(j: &J, k: Kind) -> Vec<Vec<Step>> {
    gen::all_paths(j).into_iter().filter(|p| gen::at_path(j, p).map(|x| x.kind() == k).unwrap_or(false)).collect()
}

fn mismatch(what: &str, op: &str, detail: String) -> Violation {
    Violation::new(format!("dom/{}", op), format!("{}: {}", what, detail))
}

/// compare an optional returned value with the model's
fn same_opt(got: &Option<Value>, want: &Option<J>, what: &str, op: &str) -> Result<(), Violation> {
    match (got, want) {
        (None, None) => Ok(()),
        (Some(g), Some(w)) => oracle::check_value(g, w, &format!("{} ({} result)", what, op)),
        _ => Err(mismatch(what, op, format!("returned is_some={} but the model returns is_some={}", got.is_some(), want.is_some()))),
    }
}

fn expect_panic<T>(r: Result<T, crate::runner::Panicked>, should_panic: bool, what: &str, op: &str) -> Result<Option<T>, Violation> {
    match (r, should_panic) {
        (Ok(v), false) => Ok(Some(v)),
        (Err(_), true) => {
            trace::bump(C::dom_panics_expected);
            Ok(None)
        }
        (Ok(_), true) => Err(mismatch(what, op, "the reference rejects this operation (out of range / wrong kind) but it succeeded".into())),
        (Err(p), false) => Err(Violation::new(format!("panic@{}", p.location), format!("{}: {} panicked: {}", what, op, p.message))),
    }
}

fn check_pool(pool: &[Slot], what: &str) -> Result<(), Violation> {
    trace::bump(C::dom_pool_compares);
    for (i, s) in pool.iter().enumerate() {
        libcall("dump", || oracle::check_value(&s.v, &s.m, &format!("{} [pool #{}]", what, i)))??;
    }
    Ok(())
}

pub fn run() -> SimResult {
    let mut cfg = GenCfg::small();
    cfg.max_depth = range(1, 3);
    cfg.max_width = range(1, 5);
    cfg.node_budget = *pick(&[6u32, 12, 25]);
    cfg.max_str = *pick(&[4u32, 12, 40]);
    cfg.classes = gen::CL_PLAIN | if chance(1, 3) { gen::CL_QUOTE | gen::CL_U2 | gen::CL_U3 } else { 0 };
    let mut pool: Vec<Slot> = Vec::new();
    let nsteps = range(2, 48);
    let result = (|| -> Result<(), Violation> {
        let (v, m) = parsed_start(&cfg)?;
        pool.push(Slot { v, m });
        if chance(1, 2) {
            let (v, m) = new_value(&cfg)?;
            pool.push(Slot { v, m });
        }
        check_pool(&pool, "start")?;
        let mut counter = 0u64;
        for step in 0..nsteps {
            trace::bump(C::dom_steps);
            let what = format!("step {}", step);
            let hi = draw(pool.len() as u32) as usize;
            let op = draw(60);
            // a value to insert, if the operation needs one
            let mut fresh = |cfg: &GenCfg| -> Result<(Value, J), Violation> {
                counter += 1;
                if chance(1, 3) {
                    Ok((Value::from(counter), J::Num(counter.to_string())))
                } else {
                    new_value(cfg)
                }
            };
            // before a container mutation, often take a clone of the whole value first: the clone shares
            // storage with it (arena or Arc), and must not see the mutation
            if op < 38 && pool.len() < 6 && chance(1, 5) {
                let c = libcall("clone before mutation", || pool[hi].v.clone())?;
                trace::bump(C::dom_clones);
                tr!("{} clone of #{} kept as #{}", what, hi, pool.len());
                let m = pool[hi].m.clone();
                pool.push(Slot { v: c, m });
            }
            match op {
                // ------------------------------------------------------------ array operations
                0..=19 => {
                    let paths = paths_of_kind(&pool[hi].m, Kind::Arr);
                    if paths.is_empty() {
                        // wrong kind: as_array_mut must be None and nothing changes
                        let p = pick(&gen::all_paths(&pool[hi].m)).clone();
                        tr!("{} #{}{} as_array_mut on a non-array", what, hi, gen::path_str(&p));
                        trace::bump(C::dom_rejected_ops);
                        let got = libcall("as_array_mut", || nav_mut(&mut pool[hi].v, &p).map(|x| x.as_array_mut().is_some()))?;
                        if got != Some(false) {
                            return Err(mismatch(&what, "as_array_mut", format!("on a non-array gave {:?}", got)));
                        }
                    } else {
                        let p = pick(&paths).clone();
                        let J::Arr(ma) = gen::at_path(&pool[hi].m, &p).unwrap().clone() else { unreachable!() };
                        let len = ma.len();
                        trace::bump(C::dom_mutations);
                        trace::nontrivial();
                        // entry state: one time in three the container is taken out of its place and turned into
                        // a typed `Array` handle (no promotion yet), operated on, and put back; otherwise it is
                        // reached through as_array_mut(), which promotes first
                        let typed = chance(1, 3);
                        let mut holder: Option<sonic_rs::Array> = None;
                        if typed {
                            trace::bump(C::dom_typed_handle_entries);
                            tr!("{} #{}{} (through a typed Array handle)", what, hi, gen::path_str(&p));
                            let taken = libcall("take", || nav_mut(&mut pool[hi].v, &p).expect("path").take())?;
                            holder = Some(libcall("into_array", || taken.into_array())?.ok_or_else(|| mismatch(&what, "into_array", "None on an array".into()))?);
                        }
                        macro_rules! arr {
                            ($v:expr) => {
                                match holder.as_mut() {
                                    Some(h) => h,
                                    None => nav_mut($v, &p).and_then(|x| x.as_array_mut()).expect("array at path"),
                                }
                            };
                        }
                        let mslot = |m: &mut J| -> *mut Vec<J> {
                            match gen::at_path_mut(m, &p).unwrap() {
                                J::Arr(a) => a as *mut Vec<J>,
                                _ => unreachable!(),
                            }
                        };
                        // SAFETY (harness): the model vector is only used while no other borrow of the model exists
                        let ma_mut: &mut Vec<J> = unsafe { &mut *mslot(&mut pool[hi].m) };
                        match op {
                            0 => {
                                let (nv, nm) = fresh(&cfg)?;
                                tr!("{} #{}{} push {}", what, hi, gen::path_str(&p), nm.canon());
                                libcall("push", || arr!(&mut pool[hi].v).push(nv))?;
                                ma_mut.push(nm);
                            }
                            1 => {
                                tr!("{} #{}{} pop", what, hi, gen::path_str(&p));
                                let got = libcall("pop", || arr!(&mut pool[hi].v).pop())?;
                                let want = ma_mut.pop();
                                libcall("check", || same_opt(&got, &want, &what, "pop"))??;
                                libcall("drop", move || drop(got))?;
                            }
                            2 => {
                                let at = draw(len as u32 + 3) as usize;
                                let (nv, nm) = fresh(&cfg)?;
                                tr!("{} #{}{} insert at {} of {}", what, hi, gen::path_str(&p), at, len);
                                let r = libcall_may_panic(|| arr!(&mut pool[hi].v).insert(at, nv))?;
                                if expect_panic(r, at > len, &what, "Array::insert")?.is_some() {
                                    ma_mut.insert(at, nm);
                                } else {
                                    trace::bump(C::dom_rejected_ops);
                                }
                            }
                            3 => {
                                let at = draw(len as u32 + 2) as usize;
                                tr!("{} #{}{} remove {} of {}", what, hi, gen::path_str(&p), at, len);
                                let r = libcall_may_panic(|| arr!(&mut pool[hi].v).remove(at))?;
                                if expect_panic(r, at >= len, &what, "Array::remove")?.is_some() {
                                    ma_mut.remove(at);
                                } else {
                                    trace::bump(C::dom_rejected_ops);
                                }
                            }
                            4 => {
                                let at = draw(len as u32 + 2) as usize;
                                tr!("{} #{}{} swap_remove {} of {}", what, hi, gen::path_str(&p), at, len);
                                let r = libcall_may_panic(|| arr!(&mut pool[hi].v).swap_remove(at))?;
                                if let Some(got) = expect_panic(r, at >= len, &what, "Array::swap_remove")? {
                                    let want = ma_mut.swap_remove(at);
                                    libcall("check", || oracle::check_value(&got, &want, &format!("{} swap_remove result", what)))??;
                                    libcall("drop", move || drop(got))?;
                                } else {
                                    trace::bump(C::dom_rejected_ops);
                                }
                            }
                            5 => {
                                let n = draw(len as u32 + 3) as usize;
                                tr!("{} #{}{} truncate {} of {}", what, hi, gen::path_str(&p), n, len);
                                libcall("truncate", || arr!(&mut pool[hi].v).truncate(n))?;
                                ma_mut.truncate(n);
                            }
                            6 => {
                                tr!("{} #{}{} clear", what, hi, gen::path_str(&p));
                                libcall("clear", || arr!(&mut pool[hi].v).clear())?;
                                ma_mut.clear();
                            }
                            7 => {
                                let n = draw(len as u32 + 4) as usize;
                                tr!("{} #{}{} resize {} of {}", what, hi, gen::path_str(&p), n, len);
                                libcall("resize", || arr!(&mut pool[hi].v).resize(n, "r"))?;
                                ma_mut.resize(n, J::Str("r".into()));
                            }
                            8 => {
                                let n = draw(len as u32 + 4) as usize;
                                tr!("{} #{}{} resize_with {} of {}", what, hi, gen::path_str(&p), n, len);
                                let mut k = 100u64;
                                libcall("resize_with", || {
                                    arr!(&mut pool[hi].v).resize_with(n, || {
                                        k += 1;
                                        Value::from(k)
                                    })
                                })?;
                                let mut k2 = 100u64;
                                ma_mut.resize_with(n, || {
                                    k2 += 1;
                                    J::Num(k2.to_string())
                                });
                            }
                            9 => {
                                tr!("{} #{}{} retain non-null non-array", what, hi, gen::path_str(&p));
                                libcall("retain", || arr!(&mut pool[hi].v).retain(|v| !v.is_null() && !v.is_array()))?;
                                ma_mut.retain(|j| !matches!(j, J::Null | J::Arr(_)));
                            }
                            10 => {
                                tr!("{} #{}{} retain_mut (bools -> null, drop strings)", what, hi, gen::path_str(&p));
                                libcall("retain_mut", || {
                                    arr!(&mut pool[hi].v).retain_mut(|v| {
                                        if v.is_boolean() {
                                            *v = Value::new();
                                        }
                                        !v.is_str()
                                    })
                                })?;
                                ma_mut.retain_mut(|j| {
                                    if matches!(j, J::Bool(_)) {
                                        *j = J::Null;
                                    }
                                    !matches!(j, J::Str(_))
                                });
                            }
                            11 => {
                                let at = draw(len as u32 + 2) as usize;
                                tr!("{} #{}{} split_off {} of {}", what, hi, gen::path_str(&p), at, len);
                                let r = libcall_may_panic(|| arr!(&mut pool[hi].v).split_off(at))?;
                                if let Some(tail) = expect_panic(r, at > len, &what, "Array::split_off")? {
                                    let want = ma_mut.split_off(at);
                                    pool.push(Slot { v: tail.into_value(), m: J::Arr(want) });
                                } else {
                                    trace::bump(C::dom_rejected_ops);
                                }
                            }
                            12 => {
                                // append the contents of (a clone of) another array in the pool
                                let donors: Vec<usize> = (0..pool.len()).filter(|&k| pool[k].m.kind() == Kind::Arr && !(typed && k == hi)).collect();
                                if !donors.is_empty() {
                                    let d = *pick(&donors);
                                    tr!("{} #{}{} append clone of #{}", what, hi, gen::path_str(&p), d);
                                    let mut other = libcall("clone donor", || pool[d].v.clone().into_array().unwrap())?;
                                    let J::Arr(dm) = pool[d].m.clone() else { unreachable!() };
                                    libcall("append", || arr!(&mut pool[hi].v).append(&mut other))?;
                                    let left = libcall("donor after append", || other.len())?;
                                    if left != 0 {
                                        return Err(mismatch(&what, "Array::append", format!("the appended-from array still has {} elements", left)));
                                    }
                                    libcall("drop", move || drop(other))?;
                                    // the model vector pointer may be stale if d == hi and p is empty: recompute
                                    let ma2: &mut Vec<J> = unsafe { &mut *mslot(&mut pool[hi].m) };
                                    ma2.extend(dm);
                                }
                            }
                            13 | 14 if chance(1, 8) => {
                                // a range that reaches past the end: Vec rejects it (panic) and so must the array,
                                // without changing anything (the pool comparison after the step checks that)
                                let a = draw(len as u32 + 2) as usize;
                                let b = len + 1 + draw(3) as usize;
                                trace::bump(C::dom_rejected_ops);
                                if op == 13 {
                                    tr!("{} #{}{} drain {}..{} of {} (out of range)", what, hi, gen::path_str(&p), a, b, len);
                                    let r = libcall_may_panic(|| arr!(&mut pool[hi].v).drain(a..b).count())?;
                                    expect_panic(r, true, &what, "Array::drain")?;
                                } else {
                                    tr!("{} #{}{} extend_from_within {}..{} of {} (out of range)", what, hi, gen::path_str(&p), a, b, len);
                                    let r = libcall_may_panic(|| arr!(&mut pool[hi].v).extend_from_within(a..b))?;
                                    expect_panic(r, true, &what, "Array::extend_from_within")?;
                                }
                            }
                            13 => {
                                let a = draw(len as u32 + 1) as usize;
                                let b = a + draw((len - a) as u32 + 1) as usize;
                                let full = draw(2) == 0;
                                tr!("{} #{}{} drain {}..{} of {} ({})", what, hi, gen::path_str(&p), a, b, len, if full { "consumed" } else { "dropped early" });
                                let got: Vec<Value> = libcall("drain", || {
                                    let mut d = arr!(&mut pool[hi].v).drain(a..b);
                                    if full {
                                        d.by_ref().collect()
                                    } else {
                                        d.next().into_iter().collect()
                                    }
                                })?;
                                let want: Vec<J> = ma_mut.drain(a..b).collect();
                                for (g, w) in got.iter().zip(want.iter()) {
                                    libcall("check", || oracle::check_value(g, w, &format!("{} drained", what)))??;
                                }
                                if full && got.len() != want.len() {
                                    return Err(mismatch(&what, "Array::drain", format!("yielded {} of {} elements", got.len(), want.len())));
                                }
                                libcall("drop", move || drop(got))?;
                            }
                            14 => {
                                let a = draw(len as u32 + 1) as usize;
                                let b = a + draw((len - a) as u32 + 1) as usize;
                                tr!("{} #{}{} extend_from_within {}..{}", what, hi, gen::path_str(&p), a, b);
                                libcall("extend_from_within", || arr!(&mut pool[hi].v).extend_from_within(a..b))?;
                                ma_mut.extend_from_within(a..b);
                            }
                            15 => {
                                tr!("{} #{}{} reserve + reads", what, hi, gen::path_str(&p));
                                let (l, e, sl) = libcall("reserve/len/is_empty/as_slice", || {
                                    let a = arr!(&mut pool[hi].v);
                                    a.reserve(draw(40) as usize);
                                    (a.len(), a.is_empty(), a.as_slice().len())
                                })?;
                                if l != len || e != (len == 0) || sl != len {
                                    return Err(mismatch(&what, "Array::len", format!("len {} is_empty {} slice {} but the model has {}", l, e, sl, len)));
                                }
                            }
                            16 => {
                                let at = draw(len as u32 + 2) as usize;
                                let (nv, nm) = fresh(&cfg)?;
                                tr!("{} #{}{} arr[{}] = {}", what, hi, gen::path_str(&p), at, nm.canon());
                                let r = libcall_may_panic(|| arr!(&mut pool[hi].v)[at] = nv)?;
                                if expect_panic(r, at >= len, &what, "Array index assignment")?.is_some() {
                                    ma_mut[at] = nm;
                                } else {
                                    trace::bump(C::dom_rejected_ops);
                                }
                            }
                            17 => {
                                tr!("{} #{}{} iter_mut: numbers -> \"n\"", what, hi, gen::path_str(&p));
                                libcall("iter_mut", || {
                                    for v in arr!(&mut pool[hi].v).iter_mut() {
                                        if v.is_number() {
                                            *v = Value::from("n");
                                        }
                                    }
                                })?;
                                for j in ma_mut.iter_mut() {
                                    if matches!(j, J::Num(_)) {
                                        *j = J::Str("n".into());
                                    }
                                }
                            }
                            18 => {
                                // consume a clone through into_iter with a drawn schedule of next / next_back
                                // calls that goes on past exhaustion: it must behave like vec::IntoIter
                                let ncalls = len + 1 + draw(3) as usize;
                                let sched: Vec<bool> = (0..ncalls).map(|_| draw(2) == 1).collect();
                                tr!("{} #{}{} into_iter of a clone, schedule {}", what, hi, gen::path_str(&p), sched.iter().map(|b| if *b { 'b' } else { 'f' }).collect::<String>());
                                // before one drawn call the rest of the iterator is looked at as a slice (as_slice /
                                // as_mut_slice / AsRef / AsMut): like vec::IntoIter, that is what has not been yielded yet
                                let probe_at = draw(ncalls as u32 + 1) as usize;
                                let probe_how = draw(4);
                                let (items, lens, rest): (Vec<Option<Value>>, Vec<usize>, Option<Vec<Value>>) = libcall("into_iter", || {
                                    let a: Array = arr!(&mut pool[hi].v).clone();
                                    let mut it = a.into_iter();
                                    let mut out = Vec::new();
                                    let mut lens = Vec::new();
                                    let mut rest = None;
                                    for (k, &back) in sched.iter().enumerate() {
                                        if k == probe_at {
                                            rest = Some(match probe_how {
                                                0 => it.as_slice().to_vec(),
                                                1 => it.as_mut_slice().to_vec(),
                                                2 => AsRef::<[Value]>::as_ref(&it).to_vec(),
                                                _ => AsMut::<[Value]>::as_mut(&mut it).to_vec(),
                                            });
                                        }
                                        out.push(if back { it.next_back() } else { it.next() });
                                        lens.push(it.len());
                                    }
                                    (out, lens, rest)
                                })?;
                                let mut model: std::collections::VecDeque<J> = ma.iter().cloned().collect();
                                for (k, &back) in sched.iter().enumerate() {
                                    if k == probe_at {
                                        let rest = rest.as_ref().expect("probed");
                                        if rest.len() != model.len() {
                                            return Err(mismatch(&what, "IntoIter::as_slice", format!("{} element(s) before call {} but {} have not been yielded yet (access {})", rest.len(), k, model.len(), probe_how)));
                                        }
                                        for (g, w) in rest.iter().zip(model.iter()) {
                                            libcall("check", || oracle::check_value(g, w, &format!("{} IntoIter::as_slice element", what)))??;
                                        }
                                    }
                                    let want = if back { model.pop_back() } else { model.pop_front() };
                                    libcall("check", || same_opt(&items[k], &want, &what, if back { "IntoIter::next_back" } else { "IntoIter::next" }))??;
                                    if lens[k] != model.len() {
                                        return Err(mismatch(&what, "IntoIter::len", format!("{} after call {} but the model has {} left", lens[k], k, model.len())));
                                    }
                                }
                                libcall("drop", move || drop((items, rest)))?;
                            }
                            _ => {
                                // Extend / FromIterator
                                tr!("{} #{}{} extend from slice", what, hi, gen::path_str(&p));
                                let extra = [1u64, 2, 3];
                                libcall("extend", || arr!(&mut pool[hi].v).extend(extra.iter()))?;
                                ma_mut.extend(extra.iter().map(|x| J::Num(x.to_string())));
                            }
                        }
                        if let Some(h) = holder.take() {
                            let back = libcall("into_value", || h.into_value())?;
                            let slot = nav_mut(&mut pool[hi].v, &p).expect("path");
                            libcall("put back", move || *slot = back)?;
                        }
                    }
                }
                // ------------------------------------------------------------ object operations
                20..=37 => {
                    let paths = paths_of_kind(&pool[hi].m, Kind::Obj);
                    if paths.is_empty() {
                        let p = pick(&gen::all_paths(&pool[hi].m)).clone();
                        tr!("{} #{}{} as_object_mut on a non-object", what, hi, gen::path_str(&p));
                        trace::bump(C::dom_rejected_ops);
                        let got = libcall("as_object_mut", || nav_mut(&mut pool[hi].v, &p).map(|x| x.as_object_mut().is_some()))?;
                        if got != Some(false) {
                            return Err(mismatch(&what, "as_object_mut", format!("on a non-object gave {:?}", got)));
                        }
                    } else {
                        let p = pick(&paths).clone();
                        let J::Obj(mo) = gen::at_path(&pool[hi].m, &p).unwrap().clone() else { unreachable!() };
                        trace::bump(C::dom_mutations);
                        trace::nontrivial();
                        let typed = chance(1, 3);
                        let mut holder: Option<sonic_rs::Object> = None;
                        if typed {
                            trace::bump(C::dom_typed_handle_entries);
                            tr!("{} #{}{} (through a typed Object handle)", what, hi, gen::path_str(&p));
                            let taken = libcall("take", || nav_mut(&mut pool[hi].v, &p).expect("path").take())?;
                            holder = Some(libcall("into_object", || taken.into_object())?.ok_or_else(|| mismatch(&what, "into_object", "None on an object".into()))?);
                        }
                        macro_rules! obj {
                            ($v:expr) => {
                                match holder.as_mut() {
                                    Some(h) => h,
                                    None => nav_mut($v, &p).and_then(|x| x.as_object_mut()).expect("object at path"),
                                }
                            };
                        }
                        let mo_mut: &mut Vec<(String, J)> = unsafe {
                            match gen::at_path_mut(&mut pool[hi].m, &p).unwrap() {
                                J::Obj(o) => &mut *(o as *mut Vec<(String, J)>),
                                _ => unreachable!(),
                            }
                        };
                        // an existing key (mostly) or a new one
                        let key: String = if !mo.is_empty() && chance(2, 3) { pick(&mo).0.clone() } else { pick(&["new", "k", "a", "zz", "é", "", "key"]).to_string() };
                        let pos = mo.iter().position(|(k, _)| *k == key);
                        match op {
                            20 => {
                                let (nv, nm) = fresh(&cfg)?;
                                tr!("{} #{}{} insert {:?}: {}", what, hi, gen::path_str(&p), key, nm.canon());
                                let got = libcall("insert", || obj!(&mut pool[hi].v).insert(&key, nv))?;
                                let want = match pos {
                                    Some(i) => Some(std::mem::replace(&mut mo_mut[i].1, nm)),
                                    None => {
                                        mo_mut.push((key.clone(), nm));
                                        None
                                    }
                                };
                                libcall("check", || same_opt(&got, &want, &what, "Object::insert"))??;
                                libcall("drop", move || drop(got))?;
                            }
                            21 => {
                                tr!("{} #{}{} remove {:?}", what, hi, gen::path_str(&p), key);
                                let got = libcall("remove", || obj!(&mut pool[hi].v).remove(&key))?;
                                let want = pos.map(|i| mo_mut.remove(i).1);
                                libcall("check", || same_opt(&got, &want, &what, "Object::remove"))??;
                                libcall("drop", move || drop(got))?;
                            }
                            22 => {
                                tr!("{} #{}{} remove_entry {:?}", what, hi, gen::path_str(&p), key);
                                let got = libcall("remove_entry", || obj!(&mut pool[hi].v).remove_entry(&key).map(|(k, v)| (k.to_string(), v)))?;
                                let want = pos.map(|i| mo_mut.remove(i));
                                match (&got, &want) {
                                    (None, None) => {}
                                    (Some((gk, gv)), Some((wk, wv))) => {
                                        if gk != wk {
                                            return Err(mismatch(&what, "Object::remove_entry", format!("key {:?} != {:?}", gk, wk)));
                                        }
                                        libcall("check", || oracle::check_value(gv, wv, &format!("{} remove_entry value", what)))??;
                                    }
                                    _ => return Err(mismatch(&what, "Object::remove_entry", format!("is_some={} but the model says {}", got.is_some(), want.is_some()))),
                                }
                                libcall("drop", move || drop(got))?;
                            }
                            23 => {
                                tr!("{} #{}{} get / contains_key / get_key_value {:?}", what, hi, gen::path_str(&p), key);
                                libcall("reads", || -> Result<(), Violation> {
                                    let o = obj!(&mut pool[hi].v);
                                    let want = pos.map(|i| &mo[i].1);
                                    match (o.get(&key), want) {
                                        (None, None) => {}
                                        (Some(g), Some(w)) => oracle::check_value(g, w, &format!("{} Object::get", what))?,
                                        (g, w) => return Err(mismatch(&what, "Object::get", format!("is_some={} but the model says {}", g.is_some(), w.is_some()))),
                                    }
                                    if o.contains_key(&key) != pos.is_some() {
                                        return Err(mismatch(&what, "Object::contains_key", format!("{} for {:?}", o.contains_key(&key), key)));
                                    }
                                    match (o.get_key_value(&key), want) {
                                        (None, None) => {}
                                        (Some((k, g)), Some(w)) => {
                                            if k != key {
                                                return Err(mismatch(&what, "Object::get_key_value", format!("key {:?} != {:?}", k, key)));
                                            }
                                            oracle::check_value(g, w, &format!("{} Object::get_key_value", what))?
                                        }
                                        (g, w) => return Err(mismatch(&what, "Object::get_key_value", format!("is_some={} but the model says {}", g.is_some(), w.is_some()))),
                                    }
                                    if o.len() != mo.len() || o.is_empty() != mo.is_empty() {
                                        return Err(mismatch(&what, "Object::len", format!("{} but the model has {}", o.len(), mo.len())));
                                    }
                                    Ok(())
                                })??;
                            }
                            24 => {
                                let (nv, nm) = fresh(&cfg)?;
                                tr!("{} #{}{} get_mut({:?}) = {}", what, hi, gen::path_str(&p), key, nm.canon());
                                let got = libcall("get_mut", || match obj!(&mut pool[hi].v).get_mut(&key) {
                                    Some(s) => {
                                        *s = nv;
                                        true
                                    }
                                    None => false,
                                })?;
                                if got != pos.is_some() {
                                    return Err(mismatch(&what, "Object::get_mut", format!("is_some={} but the model says {}", got, pos.is_some())));
                                }
                                if let Some(i) = pos {
                                    mo_mut[i].1 = nm;
                                }
                            }
                            25 | 26 | 27 | 28 => {
                                // entry API: or_insert / or_insert_with / or_insert_with_key / or_default
                                let (nv, nm) = fresh(&cfg)?;
                                tr!("{} #{}{} entry({:?}).or_* variant {}", what, hi, gen::path_str(&p), key, op - 25);
                                let (ekey, ret_is) = libcall("entry.or_*", || {
                                    let o = obj!(&mut pool[hi].v);
                                    let e = o.entry(&key);
                                    let ekey = if let sonic_rs::value::object::Entry::Vacant(ve) = &e { Some(ve.key().to_string()) } else { None };
                                    let slot = match op {
                                        25 => e.or_insert(nv),
                                        26 => e.or_insert_with(move || nv),
                                        27 => e.or_insert_with_key(move |_k| nv),
                                        _ => {
                                            drop(nv);
                                            e.or_default()
                                        }
                                    };
                                    (ekey, slot.get_type())
                                })?;
                                if let Some(k) = &ekey {
                                    if *k != key {
                                        return Err(mismatch(&what, "VacantEntry::key", format!("{:?} != {:?}", k, key)));
                                    }
                                }
                                if ekey.is_some() != pos.is_none() {
                                    return Err(mismatch(&what, "Object::entry", format!("vacant={} but the model says vacant={}", ekey.is_some(), pos.is_none())));
                                }
                                let inserted = if op == 28 { J::Null } else { nm };
                                let now = match pos {
                                    Some(i) => &mo_mut[i].1,
                                    None => {
                                        mo_mut.push((key.clone(), inserted));
                                        &mo_mut.last().unwrap().1
                                    }
                                };
                                if oracle::kind_of(ret_is) != now.kind() {
                                    return Err(mismatch(&what, "Entry::or_*", format!("returned slot is a {:?}, the model's is a {:?}", ret_is, now.kind())));
                                }
                            }
                            29 => {
                                // Entry::key() + and_modify
                                tr!("{} #{}{} entry({:?}).key() / and_modify", what, hi, gen::path_str(&p), key);
                                let k = libcall("entry.key", || {
                                    let o = obj!(&mut pool[hi].v);
                                    o.entry(&key).key().to_string()
                                })?;
                                if k != key {
                                    return Err(mismatch(&what, "Entry::key", format!("{:?} but the entry was made for {:?}", k, key)));
                                }
                                libcall("entry.and_modify.or_insert", || {
                                    let o = obj!(&mut pool[hi].v);
                                    o.entry(&key).and_modify(|v| *v = Value::from("modified")).or_insert("inserted");
                                })?;
                                match pos {
                                    Some(i) => mo_mut[i].1 = J::Str("modified".into()),
                                    None => mo_mut.push((key.clone(), J::Str("inserted".into()))),
                                }
                            }
                            30 => {
                                // occupied / vacant entry methods
                                let (nv, nm) = fresh(&cfg)?;
                                let sub = draw(4);
                                tr!("{} #{}{} entry({:?}) match, sub {}", what, hi, gen::path_str(&p), key, sub);
                                use sonic_rs::value::object::Entry;
                                let (was_occupied, ret) = libcall("entry match", || {
                                    let o = obj!(&mut pool[hi].v);
                                    match o.entry(&key) {
                                        Entry::Occupied(mut oe) => match sub {
                                            0 => (true, Some(oe.insert(nv))),
                                            1 => (true, Some(oe.remove())),
                                            2 => {
                                                *oe.get_mut() = nv;
                                                (true, None)
                                            }
                                            _ => {
                                                let _ = oe.get().get_type();
                                                *oe.into_mut() = nv;
                                                (true, None)
                                            }
                                        },
                                        Entry::Vacant(ve) => {
                                            ve.insert(nv);
                                            (false, None)
                                        }
                                    }
                                })?;
                                if was_occupied != pos.is_some() {
                                    return Err(mismatch(&what, "Object::entry", format!("occupied={} but the model says {}", was_occupied, pos.is_some())));
                                }
                                let want = match (pos, sub) {
                                    (Some(i), 0) => Some(std::mem::replace(&mut mo_mut[i].1, nm)),
                                    (Some(i), 1) => Some(mo_mut.remove(i).1),
                                    (Some(i), _) => {
                                        mo_mut[i].1 = nm;
                                        None
                                    }
                                    (None, _) => {
                                        mo_mut.push((key.clone(), nm));
                                        None
                                    }
                                };
                                libcall("check", || same_opt(&ret, &want, &what, "OccupiedEntry"))??;
                                libcall("drop", move || drop(ret))?;
                            }
                            31 => {
                                tr!("{} #{}{} retain keys != {:?}, nulls -> 0", what, hi, gen::path_str(&p), key);
                                libcall("retain", || {
                                    obj!(&mut pool[hi].v).retain(|k, v| {
                                        if v.is_null() {
                                            *v = Value::from(0u64);
                                        }
                                        k != key
                                    })
                                })?;
                                mo_mut.retain_mut(|(k, v)| {
                                    if matches!(v, J::Null) {
                                        *v = J::Num("0".into());
                                    }
                                    *k != key
                                });
                            }
                            32 => {
                                let donors: Vec<usize> = (0..pool.len()).filter(|&k| pool[k].m.kind() == Kind::Obj && !(typed && k == hi)).collect();
                                if !donors.is_empty() {
                                    let d = *pick(&donors);
                                    tr!("{} #{}{} append clone of #{}", what, hi, gen::path_str(&p), d);
                                    let mut other = libcall("clone donor", || pool[d].v.clone().into_object().unwrap())?;
                                    let J::Obj(dm) = pool[d].m.clone() else { unreachable!() };
                                    libcall("append", || obj!(&mut pool[hi].v).append(&mut other))?;
                                    let left = libcall("donor after append", || other.len())?;
                                    if left != 0 {
                                        return Err(mismatch(&what, "Object::append", format!("the appended-from object still has {} members", left)));
                                    }
                                    libcall("drop", move || drop(other))?;
                                    let mo2: &mut Vec<(String, J)> = match gen::at_path_mut(&mut pool[hi].m, &p).unwrap() {
                                        J::Obj(o) => o,
                                        _ => unreachable!(),
                                    };
                                    for (k, v) in dm {
                                        match mo2.iter().position(|(kk, _)| *kk == k) {
                                            Some(i) => mo2[i].1 = v,
                                            None => mo2.push((k, v)),
                                        }
                                    }
                                }
                            }
                            33 => {
                                tr!("{} #{}{} iter_mut: strings -> true", what, hi, gen::path_str(&p));
                                let seen = libcall("iter_mut", || {
                                    let mut n = 0;
                                    for (_k, v) in obj!(&mut pool[hi].v).iter_mut() {
                                        n += 1;
                                        if v.is_str() {
                                            *v = Value::from(true);
                                        }
                                    }
                                    n
                                })?;
                                if seen != mo.len() {
                                    return Err(mismatch(&what, "Object::iter_mut", format!("visited {} of {} members", seen, mo.len())));
                                }
                                for (_, v) in mo_mut.iter_mut() {
                                    if matches!(v, J::Str(_)) {
                                        *v = J::Bool(true);
                                    }
                                }
                            }
                            34 => {
                                tr!("{} #{}{} clear", what, hi, gen::path_str(&p));
                                libcall("clear", || obj!(&mut pool[hi].v).clear())?;
                                mo_mut.clear();
                            }
                            35 => {
                                tr!("{} #{}{} reserve", what, hi, gen::path_str(&p));
                                libcall("reserve", || obj!(&mut pool[hi].v).reserve(draw(40) as usize))?;
                            }
                            36 => {
                                let (nv, nm) = fresh(&cfg)?;
                                tr!("{} #{}{} obj[{:?}] = {}", what, hi, gen::path_str(&p), key, nm.canon());
                                libcall("Object IndexMut", || obj!(&mut pool[hi].v)[&key] = nv)?;
                                match pos {
                                    Some(i) => mo_mut[i].1 = nm,
                                    None => mo_mut.push((key.clone(), nm)),
                                }
                            }
                            _ => {
                                tr!("{} #{}{} obj[{:?}] read", what, hi, gen::path_str(&p), key);
                                let r = libcall_may_panic(|| obj!(&mut pool[hi].v)[&key].get_type())?;
                                if let Some(t) = expect_panic(r, pos.is_none(), &what, "Object Index")? {
                                    if oracle::kind_of(t) != mo[pos.unwrap()].1.kind() {
                                        return Err(mismatch(&what, "Object Index", format!("kind {:?} != model {:?}", t, mo[pos.unwrap()].1.kind())));
                                    }
                                } else {
                                    trace::bump(C::dom_rejected_ops);
                                }
                            }
                        }
                        if let Some(h) = holder.take() {
                            let back = libcall("into_value", || h.into_value())?;
                            let slot = nav_mut(&mut pool[hi].v, &p).expect("path");
                            libcall("put back", move || *slot = back)?;
                        }
                    }
                }
                // ------------------------------------------------------------ value-level operations
                38 | 39 => {
                    // v[step] = new  with every index type (insert-on-missing, null -> object promotion)
                    let p = pick(&gen::all_paths(&pool[hi].m)).clone();
                    let target = gen::at_path(&pool[hi].m, &p).unwrap().clone();
                    let (nv, nm) = fresh(&cfg)?;
                    let by_key = match &target {
                        J::Arr(_) => chance(1, 6),
                        J::Obj(_) | J::Null => !chance(1, 6),
                        _ => draw(2) == 0,
                    };
                    trace::bump(C::dom_mutations);
                    trace::nontrivial();
                    if by_key {
                        let key: String = match &target {
                            J::Obj(o) if !o.is_empty() && chance(1, 2) => pick(o).0.clone(),
                            _ => pick(&["new", "k", "x"]).to_string(),
                        };
                        let form = draw(4);
                        tr!("{} #{}{} [{:?}] = {} (index form {})", what, hi, gen::path_str(&p), key, nm.canon(), form);
                        let should_panic = !matches!(target, J::Obj(_) | J::Null);
                        let r = libcall_may_panic(|| {
                            let slot = nav_mut(&mut pool[hi].v, &p).expect("path");
                            match form {
                                0 => slot[key.as_str()] = nv,
                                1 => slot[&key] = nv,
                                2 => slot[&FastStr::new(&key)] = nv,
                                _ => slot[PointerNode::Key(FastStr::new(&key))] = nv,
                            }
                        })?;
                        if expect_panic(r, should_panic, &what, "IndexMut by key")?.is_some() {
                            let ms = gen::at_path_mut(&mut pool[hi].m, &p).unwrap();
                            if matches!(ms, J::Null) {
                                *ms = J::Obj(vec![]);
                            }
                            let J::Obj(o) = ms else { unreachable!() };
                            match o.iter().position(|(k, _)| *k == key) {
                                Some(i) => o[i].1 = nm,
                                None => o.push((key, nm)),
                            }
                        } else {
                            trace::bump(C::dom_rejected_ops);
                        }
                    } else {
                        let len = if let J::Arr(a) = &target { a.len() } else { 0 };
                        let at = draw(len as u32 + 2) as usize;
                        let form = draw(2);
                        tr!("{} #{}{} [{}] = {} (index form {})", what, hi, gen::path_str(&p), at, nm.canon(), form);
                        let should_panic = !matches!(target, J::Arr(_)) || at >= len;
                        let r = libcall_may_panic(|| {
                            let slot = nav_mut(&mut pool[hi].v, &p).expect("path");
                            match form {
                                0 => slot[at] = nv,
                                _ => slot[PointerNode::Index(at)] = nv,
                            }
                        })?;
                        if expect_panic(r, should_panic, &what, "IndexMut by position")?.is_some() {
                            let J::Arr(a) = gen::at_path_mut(&mut pool[hi].m, &p).unwrap() else { unreachable!() };
                            a[at] = nm;
                        } else {
                            trace::bump(C::dom_rejected_ops);
                        }
                    }
                }
                40 => {
                    // read Index: missing -> null
                    let p = pick(&gen::all_paths(&pool[hi].m)).clone();
                    let target = gen::at_path(&pool[hi].m, &p).unwrap();
                    tr!("{} #{}{} read index", what, hi, gen::path_str(&p));
                    libcall("Index reads", || -> Result<(), Violation> {
                        let v = if p.is_empty() { &pool[hi].v } else { pool[hi].v.pointer(&gen::to_pointer(&p)).ok_or_else(|| mismatch(&what, "pointer", "None for an existing path".into()))? };
                        oracle::check_value(v, target, &format!("{} pointer", what))?;
                        let missing = &v["\u{1}missing"];
                        if !missing.is_null() {
                            return Err(mismatch(&what, "Index", "a missing key did not read as null".into()));
                        }
                        if !v[1_000_000].is_null() {
                            return Err(mismatch(&what, "Index", "an out-of-range index did not read as null".into()));
                        }
                        // comparisons with primitives
                        match target {
                            J::Str(sv) => {
                                let longer = format!("{}x", sv);
                                if !(*v == sv.as_str()) || !(*v == *sv) || !(sv.as_str() == *v) || !(*v == FastStr::new(sv)) || *v == longer.as_str() || *v == true || *v == 0u64 {
                                    return Err(mismatch(&what, "PartialEq<str>", format!("comparison with {:?} / primitives is wrong", sv)));
                                }
                            }
                            J::Bool(b) => {
                                if !(*v == *b) || *v == !*b || !(*b == *v) || *v == "true" {
                                    return Err(mismatch(&what, "PartialEq<bool>", format!("comparison with {} is wrong", b)));
                                }
                            }
                            J::Num(lit) => {
                                if let Some(u) = oracle::expected_u64(lit) {
                                    if !(*v == u) || *v == u.wrapping_add(1) || !(u == *v) {
                                        return Err(mismatch(&what, "PartialEq<u64>", format!("comparison with {} is wrong", u)));
                                    }
                                }
                                if let Some(i) = oracle::expected_i64(lit) {
                                    if !(*v == i) || *v == i.wrapping_sub(1) {
                                        return Err(mismatch(&what, "PartialEq<i64>", format!("comparison with {} is wrong", i)));
                                    }
                                }
                                if let Some(f) = oracle::expected_f64(lit) {
                                    if !(*v == f) || *v == f + 1.0 + f.abs() {
                                        return Err(mismatch(&what, "PartialEq<f64>", format!("comparison with {} is wrong", f)));
                                    }
                                }
                                if *v == "1" || *v == false {
                                    return Err(mismatch(&what, "PartialEq", "a number compares equal to a string / bool".into()));
                                }
                            }
                            J::Null => {
                                if *v == false || *v == 0u64 || *v == "" {
                                    return Err(mismatch(&what, "PartialEq", "null compares equal to a primitive".into()));
                                }
                            }
                            _ => {}
                        }
                        match target {
                            J::Arr(a) => {
                                for (i, x) in a.iter().enumerate() {
                                    oracle::check_scalars(&v[i], x, &what)?;
                                    oracle::check_scalars(v.get(i).unwrap(), x, &what)?;
                                }
                            }
                            J::Obj(o) => {
                                for (k, x) in o {
                                    oracle::check_scalars(&v[k.as_str()], x, &what)?;
                                    oracle::check_scalars(v.get(k).unwrap(), x, &what)?;
                                }
                            }
                            _ => {}
                        }
                        Ok(())
                    })??;
                }
                41 | 42 => {
                    // get_mut / pointer_mut incl. the empty path and paths that do not exist
                    let mut p = pick(&gen::all_paths(&pool[hi].m)).clone();
                    if chance(1, 5) {
                        p.push(if draw(2) == 0 { Step::Key("nope".into()) } else { Step::Idx(77) });
                    }
                    let (nv, nm) = fresh(&cfg)?;
                    tr!("{} #{} pointer_mut({}) = {}", what, hi, gen::path_str(&p), nm.canon());
                    let exists = gen::at_path(&pool[hi].m, &p).is_some();
                    let ptr = gen::to_pointer(&p);
                    let got = libcall("pointer_mut", || {
                        let slot = if op == 41 && p.len() == 1 {
                            match &p[0] {
                                Step::Key(k) => pool[hi].v.get_mut(k.as_str()),
                                Step::Idx(i) => pool[hi].v.get_mut(*i),
                            }
                        } else {
                            pool[hi].v.pointer_mut(&ptr)
                        };
                        match slot {
                            Some(s) => {
                                *s = nv;
                                true
                            }
                            None => false,
                        }
                    })?;
                    if got != exists {
                        return Err(mismatch(&what, "pointer_mut", format!("is_some={} for {} but the model says {}", got, gen::path_str(&p), exists)));
                    }
                    if exists {
                        trace::bump(C::dom_mutations);
                        trace::nontrivial();
                        *gen::at_path_mut(&mut pool[hi].m, &p).unwrap() = nm;
                    } else {
                        trace::bump(C::dom_rejected_ops);
                    }
                }
                43 | 44 => {
                    // take at a path: the taken value lives on, the slot reads null
                    let p = pick(&gen::all_paths(&pool[hi].m)).clone();
                    tr!("{} #{}{} take", what, hi, gen::path_str(&p));
                    let taken = libcall("take", || nav_mut(&mut pool[hi].v, &p).map(|s| s.take()))?;
                    let Some(tv) = taken else { return Err(mismatch(&what, "pointer_mut", "None for an existing path".into())) };
                    trace::bump(C::dom_takes);
                    trace::nontrivial();
                    let tm = std::mem::replace(gen::at_path_mut(&mut pool[hi].m, &p).unwrap(), J::Null);
                    if pool.len() < 6 {
                        pool.push(Slot { v: tv, m: tm });
                    } else {
                        libcall("check", || oracle::check_value(&tv, &tm, &format!("{} taken", what)))??;
                        libcall("drop", move || drop(tv))?;
                    }
                }
                45 | 46 => {
                    // clone (root or subtree)
                    let p = pick(&gen::all_paths(&pool[hi].m)).clone();
                    tr!("{} #{}{} clone", what, hi, gen::path_str(&p));
                    let c = libcall("clone", || if p.is_empty() { Some(pool[hi].v.clone()) } else { pool[hi].v.pointer(&gen::to_pointer(&p)).cloned() })?;
                    let Some(cv) = c else { return Err(mismatch(&what, "pointer", "None for an existing path".into())) };
                    trace::bump(C::dom_clones);
                    let cm = gen::at_path(&pool[hi].m, &p).unwrap().clone();
                    if pool.len() < 6 {
                        pool.push(Slot { v: cv, m: cm });
                    } else {
                        libcall("drop", move || drop(cv))?;
                    }
                }
                47 => {
                    // assign a clone of one pool member into another (cross-arena nesting)
                    if pool.len() >= 2 {
                        let src = draw(pool.len() as u32) as usize;
                        let p = pick(&gen::all_paths(&pool[hi].m)).clone();
                        tr!("{} #{}{} = clone of #{}", what, hi, gen::path_str(&p), src);
                        trace::bump(C::dom_cross_assign);
                        trace::nontrivial();
                        let cv = libcall("clone", || pool[src].v.clone())?;
                        let cm = pool[src].m.clone();
                        libcall("assign", || *nav_mut(&mut pool[hi].v, &p).expect("path") = cv)?;
                        *gen::at_path_mut(&mut pool[hi].m, &p).unwrap() = cm;
                    }
                }
                48 => {
                    // into_array / into_object round trip
                    tr!("{} #{} into_array/into_object", what, hi);
                    let s = pool.swap_remove(hi);
                    let kind = s.m.kind();
                    let v = libcall("into_*", || -> Result<Value, Violation> {
                        match kind {
                            Kind::Arr => {
                                let c = s.v.clone();
                                if c.into_object().is_some() {
                                    return Err(mismatch(&what, "into_object", "Some on an array".into()));
                                }
                                Ok(s.v.into_array().ok_or_else(|| mismatch(&what, "into_array", "None on an array".into()))?.into_value())
                            }
                            Kind::Obj => {
                                let c = s.v.clone();
                                if c.into_array().is_some() {
                                    return Err(mismatch(&what, "into_array", "Some on an object".into()));
                                }
                                Ok(Value::from(s.v.into_object().ok_or_else(|| mismatch(&what, "into_object", "None on an object".into()))?))
                            }
                            _ => {
                                let c = s.v.clone();
                                if c.into_array().is_some() || s.v.clone().into_object().is_some() {
                                    return Err(mismatch(&what, "into_array/into_object", "Some on a scalar".into()));
                                }
                                Ok(s.v)
                            }
                        }
                    })??;
                    pool.push(Slot { v, m: s.m });
                }
                49 | 50 => {
                    // equality queries between pool members (order-insensitive, as the model's)
                    let other = draw(pool.len() as u32) as usize;
                    tr!("{} #{} == #{} ?", what, hi, other);
                    let got = libcall("eq", || pool[hi].v == pool[other].v)?;
                    let want = pool[hi].m.sem_eq(&pool[other].m) || dom_eq_quirk(&pool[hi].m, &pool[other].m);
                    if got != want {
                        // equality of numbers: 1u64 == 1i64 but 1 != 1.0 ; the model's sem_eq says the same
                        return Err(mismatch(&what, "PartialEq", format!("{} but the models compare {} ({} vs {})", got, want, pool[hi].m.canon(), pool[other].m.canon())));
                    }
                    let c = libcall("clone", || pool[hi].v.clone())?;
                    let same = libcall("eq clone", || c == pool[hi].v)?;
                    libcall("drop", move || drop(c))?;
                    if !same {
                        return Err(mismatch(&what, "PartialEq", "a value is not equal to its clone".into()));
                    }
                }
                51 if draw(2) == 0 => {
                    // equality against a freshly parsed copy whose object members are in another order
                    // (equality is member-order-insensitive), and against a copy with one leaf changed
                    fn shuffled(j: &J) -> J {
                        match j {
                            J::Arr(a) => J::Arr(a.iter().map(shuffled).collect()),
                            J::Obj(m) => {
                                let mut v: Vec<(String, J)> = m.iter().map(|(k, x)| (k.clone(), shuffled(x))).collect();
                                for i in (1..v.len()).rev() {
                                    let k = draw(i as u32 + 1) as usize;
                                    v.swap(i, k);
                                }
                                J::Obj(v)
                            }
                            other => other.clone(),
                        }
                    }
                    let perm = shuffled(&pool[hi].m);
                    let text = gen::render(&perm, &Style { ws: draw(2), esc: 0 });
                    tr!("{} #{} == reparsed copy with shuffled members {}", what, hi, oracle::truncate(&text));
                    let copy = libcall("from_str", || sonic_rs::from_str::<Value>(&text))?.map_err(|e| mismatch(&what, "from_str", e.to_string()))?;
                    let (ab, ba) = libcall("eq", || (pool[hi].v == copy, copy == pool[hi].v))?;
                    if !ab || !ba {
                        return Err(mismatch(&what, "PartialEq", format!("a value and a reparsed copy of it with shuffled object members compare {} / {} ({})", ab, ba, oracle::truncate(&text))));
                    }
                    // one leaf changed -> unequal
                    let paths: Vec<Vec<Step>> = gen::all_paths(&perm).into_iter().filter(|p| !matches!(gen::at_path(&perm, p), Some(J::Arr(_)) | Some(J::Obj(_)))).collect();
                    if !paths.is_empty() {
                        let p = pick(&paths).clone();
                        let mut changed = perm.clone();
                        *gen::at_path_mut(&mut changed, &p).unwrap() = J::Str("\u{1}changed".into());
                        let text2 = gen::render(&changed, &Style::plain());
                        let other = libcall("from_str", || sonic_rs::from_str::<Value>(&text2))?.map_err(|e| mismatch(&what, "from_str", e.to_string()))?;
                        let (ab, ba) = libcall("ne", || (pool[hi].v == other, other == pool[hi].v))?;
                        libcall("drop", move || drop(other))?;
                        if ab || ba {
                            return Err(mismatch(&what, "PartialEq", format!("values that differ at {} compare equal", gen::path_str(&p))));
                        }
                    }
                    gen::scrub(text);
                    if pool.len() < 6 && chance(1, 3) {
                        pool.push(Slot { v: copy, m: perm });
                    } else {
                        libcall("drop", move || drop(copy))?;
                    }
                }
                51 => {
                    // serialize / reparse
                    tr!("{} #{} to_string", what, hi);
                    let s = libcall("to_string", || sonic_rs::to_string(&pool[hi].v))?.map_err(|e| mismatch(&what, "to_string", e.to_string()))?;
                    oracle::check_serialized(&s, &pool[hi].m, &what)?;
                    // Display is the compact serialization; Debug must at least not fail
                    let (disp, dbg) = libcall("Display / Debug", || (format!("{}", &pool[hi].v), format!("{:?}", &pool[hi].v)))?;
                    if disp != s || dbg.is_empty() {
                        return Err(mismatch(&what, "Display", format!("{:?} but to_string gave {:?}", oracle::truncate(&disp), oracle::truncate(&s))));
                    }
                }
                52 => {
                    if pool.len() < 6 {
                        tr!("{} new pool member", what);
                        let (v, m) = if draw(2) == 0 { new_value(&cfg)? } else { parsed_start(&cfg)? };
                        pool.push(Slot { v, m });
                    }
                }
                53 => {
                    if pool.len() > 1 {
                        tr!("{} drop #{}", what, hi);
                        let s = pool.swap_remove(hi);
                        libcall("drop", move || drop(s.v))?;
                    }
                }
                54 => {
                    // FromIterator / From conversions building containers
                    tr!("{} build from iterators", what);
                    let items: Vec<(Value, J)> = (0..draw(4)).map(|_| fresh(&cfg)).collect::<Result<_, _>>()?;
                    let (vs, ms): (Vec<Value>, Vec<J>) = items.into_iter().unzip();
                    let v = libcall("Value::from(Vec)", || Value::from(vs))?;
                    if pool.len() < 6 {
                        pool.push(Slot { v, m: J::Arr(ms) });
                    } else {
                        libcall("drop", move || drop(v))?;
                    }
                }
                56 | 57 | 58 => {
                    // operations on a typed handle (Array / Object obtained by into_array / into_object or
                    // parsed directly): they reach the value in whatever state it is in (e.g. still a parsed,
                    // un-promoted slice), unlike as_array_mut / as_object_mut which promote first
                    let s = pool.swap_remove(hi);
                    let sub = draw(6);
                    tr!("{} #{} typed-handle op {} on a {:?}", what, hi, sub, s.m.kind());
                    trace::bump(C::dom_mutations);
                    trace::nontrivial();
                    let (nv, nm) = fresh(&cfg)?;
                    let Slot { v, mut m } = s;
                    let v2 = match &mut m {
                        J::Arr(a) => {
                            // sometimes re-parse as a typed Array instead of converting
                            let mut h: Array = if chance(1, 3) {
                                let text = gen::render(&J::Arr(a.clone()), &Style::plain());
                                libcall("drop", move || drop(v))?;
                                let h = libcall("from_str::<Array>", || sonic_rs::from_str::<Array>(&text))?.map_err(|e| mismatch(&what, "from_str::<Array>", e.to_string()))?;
                                gen::scrub(text);
                                h
                            } else {
                                libcall("into_array", || v.into_array())?.ok_or_else(|| mismatch(&what, "into_array", "None on an array".into()))?
                            };
                            match sub {
                                0 => {
                                    libcall("Array::clear", || h.clear())?;
                                    a.clear();
                                }
                                1 => {
                                    libcall("Array::push", || h.push(nv))?;
                                    a.push(nm);
                                }
                                2 => {
                                    let got = libcall("Array::pop", || h.pop())?;
                                    let want = a.pop();
                                    libcall("check", || same_opt(&got, &want, &what, "Array::pop"))??;
                                    libcall("drop", move || drop(got))?;
                                }
                                3 => {
                                    let n = draw(a.len() as u32 + 2) as usize;
                                    libcall("Array::truncate", || h.truncate(n))?;
                                    a.truncate(n);
                                }
                                4 => {
                                    let (l, e) = libcall("Array::len", || (h.len(), h.is_empty()))?;
                                    if l != a.len() || e != a.is_empty() {
                                        return Err(mismatch(&what, "Array::len", format!("{} / {} but the model has {}", l, e, a.len())));
                                    }
                                }
                                _ => {
                                    if chance(1, 2) {
                                        libcall("Array::retain", || h.retain(|x| !x.is_null()))?;
                                        a.retain(|x| !matches!(x, J::Null));
                                    } else {
                                        libcall("Array::retain_mut", || {
                                            h.retain_mut(|x| {
                                                if x.is_boolean() {
                                                    *x = Value::from("kept");
                                                }
                                                !x.is_null()
                                            })
                                        })?;
                                        a.retain_mut(|x| {
                                            if matches!(x, J::Bool(_)) {
                                                *x = J::Str("kept".into());
                                            }
                                            !matches!(x, J::Null)
                                        });
                                    }
                                }
                            }
                            let l = libcall("Array::len", || h.len())?;
                            if l != a.len() {
                                return Err(mismatch(&what, "Array::len", format!("{} after the operation but the model has {}", l, a.len())));
                            }
                            // read side of the typed handle: iteration by reference, size_hint, capacity,
                            // Serialize, equality with slices / Vec / Value in both directions
                            let model_arr = J::Arr(a.clone());
                            libcall("Array handle reads", || -> Result<(), Violation> {
                                let mut n = 0;
                                for (x, mx) in (&h).into_iter().zip(a.iter()) {
                                    oracle::check_scalars(x, mx, &what)?;
                                    n += 1;
                                }
                                let hint = h.clone().into_iter().size_hint();
                                if n != a.len() || hint != (a.len(), Some(a.len())) {
                                    return Err(mismatch(&what, "Array iteration", format!("visited {} size_hint {:?}, model has {}", n, hint, a.len())));
                                }
                                if h.capacity() < a.len() {
                                    return Err(mismatch(&what, "Array::capacity", format!("{} < len {}", h.capacity(), a.len())));
                                }
                                let text = sonic_rs::to_string(&h).map_err(|e| mismatch(&what, "to_string(Array)", e.to_string()))?;
                                oracle::check_serialized(&text, &model_arr, &what)?;
                                let as_value = Value::from(h.clone());
                                if !(as_value == h) || !(h == as_value) || !(&h == as_value) {
                                    return Err(mismatch(&what, "PartialEq<Array>", "an array handle is not equal to the value made from its clone".into()));
                                }
                                // all-u64 arrays compare with slices / Vec / arrays of u64
                                let nums: Option<Vec<u64>> = a.iter().map(|x| if let J::Num(l) = x { oracle::expected_u64(l) } else { None }).collect();
                                if let Some(nums) = nums {
                                    let mut longer = nums.clone();
                                    longer.push(7);
                                    if !(h == nums) || !(h == nums[..]) || !(as_value == nums) || !(nums == as_value) || h == longer || as_value == longer[..] {
                                        return Err(mismatch(&what, "PartialEq<[u64]>", format!("comparison with {:?} is wrong", nums)));
                                    }
                                    if nums.len() == 2 {
                                        let arr2 = [nums[0], nums[1]];
                                        if !(h == arr2) || !(as_value == &arr2) {
                                            return Err(mismatch(&what, "PartialEq<[u64; 2]>", "comparison with a fixed array is wrong".into()));
                                        }
                                    }
                                }
                                Ok(())
                            })??;
                            // as_mut_slice / iteration by mutable reference: nulls become false
                            libcall("Array as_mut_slice / &mut iteration", || {
                                for x in h.as_mut_slice().iter_mut() {
                                    if x.is_null() {
                                        *x = Value::from(false);
                                    }
                                }
                                for x in &mut h {
                                    if x.is_true() {
                                        *x = Value::from(1u64);
                                    }
                                }
                            })?;
                            for x in a.iter_mut() {
                                if matches!(x, J::Null) {
                                    *x = J::Bool(false);
                                }
                                if matches!(x, J::Bool(true)) {
                                    *x = J::Num("1".into());
                                }
                            }
                            libcall("into_value", || h.into_value())?
                        }
                        J::Obj(o) => {
                            let mut h: Object = if chance(1, 3) {
                                let text = gen::render(&J::Obj(o.clone()), &Style::plain());
                                libcall("drop", move || drop(v))?;
                                let h = libcall("from_str::<Object>", || sonic_rs::from_str::<Object>(&text))?.map_err(|e| mismatch(&what, "from_str::<Object>", e.to_string()))?;
                                gen::scrub(text);
                                h
                            } else {
                                libcall("into_object", || v.into_object())?.ok_or_else(|| mismatch(&what, "into_object", "None on an object".into()))?
                            };
                            let key: String = if !o.is_empty() && chance(1, 2) { pick(o).0.clone() } else { "typed".to_string() };
                            let pos = o.iter().position(|(k, _)| *k == key);
                            match sub {
                                0 => {
                                    libcall("Object::clear", || h.clear())?;
                                    o.clear();
                                }
                                1 => {
                                    let got = libcall("Object::insert", || h.insert(&key, nv))?;
                                    let want = match pos {
                                        Some(i) => Some(std::mem::replace(&mut o[i].1, nm)),
                                        None => {
                                            o.push((key.clone(), nm));
                                            None
                                        }
                                    };
                                    libcall("check", || same_opt(&got, &want, &what, "Object::insert"))??;
                                    libcall("drop", move || drop(got))?;
                                }
                                2 => {
                                    let got = libcall("Object::remove", || h.remove(&key))?;
                                    let want = pos.map(|i| o.remove(i).1);
                                    libcall("check", || same_opt(&got, &want, &what, "Object::remove"))??;
                                    libcall("drop", move || drop(got))?;
                                }
                                3 => {
                                    let (l, e, c) = libcall("Object::len", || (h.len(), h.is_empty(), h.contains_key(&key)))?;
                                    if l != o.len() || e != o.is_empty() || c != pos.is_some() {
                                        return Err(mismatch(&what, "Object::len", format!("{} / {} / {} but the model has {} members", l, e, c, o.len())));
                                    }
                                }
                                4 => {
                                    // the closure also writes through its `&mut Value` to members it keeps
                                    libcall("Object::retain", || {
                                        h.retain(|k, v| {
                                            if v.is_null() || v.is_boolean() {
                                                *v = Value::from("kept");
                                            }
                                            k != key
                                        })
                                    })?;
                                    o.retain_mut(|(k, v)| {
                                        if matches!(v, J::Null | J::Bool(_)) {
                                            *v = J::Str("kept".into());
                                        }
                                        *k != key
                                    });
                                }
                                _ => {
                                    libcall("Object::entry.or_insert", || {
                                        h.entry(&key).or_insert(nv);
                                    })?;
                                    if pos.is_none() {
                                        o.push((key.clone(), nm));
                                    }
                                }
                            }
                            let l = libcall("Object::len", || h.len())?;
                            if l != o.len() {
                                return Err(mismatch(&what, "Object::len", format!("{} after the operation but the model has {}", l, o.len())));
                            }
                            let model_obj = J::Obj(o.clone());
                            libcall("Object handle reads", || -> Result<(), Violation> {
                                let it = h.iter();
                                if it.len() != o.len() {
                                    return Err(mismatch(&what, "Object::iter().len", format!("{} but the model has {}", it.len(), o.len())));
                                }
                                let mut n = 0;
                                for (k, x) in &h {
                                    let mx = model_obj.get_key(k).ok_or_else(|| mismatch(&what, "Object iteration", format!("unexpected key {:?}", k)))?;
                                    oracle::check_scalars(x, mx, &what)?;
                                    n += 1;
                                }
                                if n != o.len() {
                                    return Err(mismatch(&what, "Object iteration", format!("visited {} of {}", n, o.len())));
                                }
                                if h.capacity() < o.len() {
                                    return Err(mismatch(&what, "Object::capacity", format!("{} < len {}", h.capacity(), o.len())));
                                }
                                let text = sonic_rs::to_string(&h).map_err(|e| mismatch(&what, "to_string(Object)", e.to_string()))?;
                                oracle::check_serialized(&text, &model_obj, &what)?;
                                let as_value = Value::from(h.clone());
                                if !(as_value == h) || !(h == as_value) || !(&h == as_value) || !(h == h.clone()) {
                                    return Err(mismatch(&what, "PartialEq<Object>", "an object handle is not equal to the value made from its clone".into()));
                                }
                                Ok(())
                            })??;
                            let l = libcall("Object::iter_mut().len", || h.iter_mut().len())?;
                            if l != o.len() {
                                return Err(mismatch(&what, "Object::iter_mut().len", format!("{} but the model has {}", l, o.len())));
                            }
                            libcall("Object &mut iteration", || {
                                for (_k, x) in &mut h {
                                    if x.is_null() {
                                        *x = Value::from("was null");
                                    }
                                }
                            })?;
                            for (_, x) in o.iter_mut() {
                                if matches!(x, J::Null) {
                                    *x = J::Str("was null".into());
                                }
                            }
                            libcall("into_value", || h.into_value())?
                        }
                        other => {
                            // a scalar: typed parsing of its text must be rejected, defaults are empty containers
                            libcall("drop", move || drop(nv))?;
                            let text = gen::render(other, &Style::plain());
                            let (ea, eo) = libcall("from_str::<Array/Object>(scalar)", || (sonic_rs::from_str::<Array>(&text).is_err(), sonic_rs::from_str::<Object>(&text).is_err()))?;
                            if !ea || !eo {
                                return Err(mismatch(&what, "from_str::<Array/Object>", format!("accepted the scalar {}", oracle::truncate(&text))));
                            }
                            let (da, dob) = libcall("defaults", || (Array::default().len(), Object::default().len()))?;
                            if da != 0 || dob != 0 {
                                return Err(mismatch(&what, "Default", "Array::default / Object::default are not empty".into()));
                            }
                            v
                        }
                    };
                    pool.push(Slot { v: v2, m });
                }
                _ => {
                    // as_*_mut of the wrong kind, get_mut of the wrong index kind: None, nothing changes
                    let p = pick(&gen::all_paths(&pool[hi].m)).clone();
                    let k = gen::at_path(&pool[hi].m, &p).unwrap().kind();
                    tr!("{} #{}{} wrong-kind mutable access on a {:?}", what, hi, gen::path_str(&p), k);
                    trace::bump(C::dom_rejected_ops);
                    let (a, o, gi, gk) = libcall("wrong kind", || {
                        let s = nav_mut(&mut pool[hi].v, &p).expect("path");
                        let a = s.as_array_mut().is_some();
                        let o = s.as_object_mut().is_some();
                        let gi = s.get_mut(0usize).is_some();
                        let gk = s.get_mut("\u{1}nokey").is_some();
                        (a, o, gi, gk)
                    })?;
                    let first_exists = matches!(gen::at_path(&pool[hi].m, &p).unwrap(), J::Arr(x) if !x.is_empty());
                    if a != (k == Kind::Arr) || o != (k == Kind::Obj) || gi != first_exists || gk {
                        return Err(mismatch(&what, "as_*_mut/get_mut", format!("as_array_mut={} as_object_mut={} get_mut(0)={} get_mut(absent key)={} on a {:?}", a, o, gi, gk, k)));
                    }
                }
            }
            // after every step: every live value still equals its model
            check_pool(&pool, &what)?;
        }
        Ok(())
    })();
    libcall("drop pool", move || drop(pool))?;
    result
}

/// `Value == Value` compares numbers by class like the model; nothing extra is known to differ.
fn dom_eq_quirk(_a: &J, _b: &J) -> bool {
    false
}
