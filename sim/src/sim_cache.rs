//! C18 — publish-once caches of `LazyValue` (decoded string) and `OwnedLazyValue` (one-level
//! parse) under concurrent readers: 2-3 simulated threads, interleaved at every atomic
//! operation of the two cache fields, with spurious weak-CAS failure as an injected fault.

use std::sync::{Arc, Mutex};

use sonic_rs::{FastStr, JsonContainerTrait, JsonValueTrait, LazyValue, OwnedLazyValue};

use crate::choice::{chance, draw, pick, range};
use crate::gen::{self, GenCfg, Step, Style};
use crate::oracle;
use crate::refjson::{self, J};
use crate::runner::{libcall, SimResult, Violation};
use crate::sched;
use crate::trace::{self, C};
use crate::tr;

pub fn run() -> SimResult {
    sched::set_step_hint(40);
    // swarm knob: spurious weak-CAS failure rate of this run (0 = never)
    match draw(4) {
        0 => sched::set_cas_rate(0, 1),
        1 => sched::set_cas_rate(1, 4),
        2 => sched::set_cas_rate(1, 2),
        _ => sched::set_cas_rate(3, 4),
    }
    if draw(2) == 0 {
        trace::bump(C::lazy_cache_scen);
        lazy_scenario()
    } else {
        trace::bump(C::owned_cache_scen);
        owned_scenario()
    }
}

#[derive(Clone, Debug)]
enum LOp {
    AsStr,
    AsStrTwice,
    CloneReadDrop,
    CloneKeep,
    Debug,
    RawStr,
    TypeAndNumber,
    DropHandle,
    CloneToOwned,
}

fn collect(errs: &Arc<Mutex<Vec<Violation>>>, r: Result<(), Violation>) -> bool {
    if let Err(v) = r {
        errs.lock().unwrap_or_else(|e| e.into_inner()).push(v);
        false
    } else {
        true
    }
}

fn finish(results: Vec<sched::ThreadResult>, errs: &Arc<Mutex<Vec<Violation>>>) -> SimResult {
    for (i, r) in results.iter().enumerate() {
        if r.step_cap {
            return Err(Violation::new("harness/step-cap", "whole-run step cap exceeded"));
        }
        if r.no_progress {
            return Err(Violation::new("no-progress", format!("T{}: a library call did not return within the yield cap", i)));
        }
        if let Some(p) = &r.panic {
            return Err(Violation::new("harness/panic", format!("simulated thread T{} panicked outside a library call: {}", i, p)));
        }
    }
    let mut e = errs.lock().unwrap_or_else(|e| e.into_inner());
    if let Some(v) = e.drain(..).next() {
        return Err(v);
    }
    Ok(())
}

struct Keep<T>(T);
unsafe impl<T> Send for Keep<T> {}
unsafe impl<T> Sync for Keep<T> {}

fn lazy_scenario() -> SimResult {
    // model-first: the decoded string, then its literal
    let classes = gen::CL_PLAIN | gen::CL_QUOTE | if chance(1, 2) { gen::CL_CTRL | gen::CL_U2 | gen::CL_U4 } else { 0 };
    let decoded = if chance(1, 8) { J::Num(gen::gen_number()) } else { J::Str(gen::gen_string_len(classes, range(0, 40))) };
    let style = Style { ws: 0, esc: draw(3) };
    let raw = gen::render(&decoded, &style);
    let route = draw(4);
    // the source text must outlive every handle; the driver keeps it until all threads are joined
    let doc_text: Arc<String> = Arc::new(match route {
        0 | 3 => format!("{{\"k\":{}}}", raw),
        2 => format!("[{},1]", raw),
        _ => raw.clone(),
    });
    let doc_fs: Arc<FastStr> = Arc::new(FastStr::new(doc_text.as_str()));
    tr!("scenario lazy route={} raw={}", route, raw);
    let lv: LazyValue<'static> = {
        let lv: LazyValue<'_> = match route {
            0 => libcall("get_from_faststr", || sonic_rs::get_from_faststr(&doc_fs, &["k"]))?,
            1 => libcall("from_str::<LazyValue>", || sonic_rs::from_str::<LazyValue>(doc_text.as_str()))?,
            2 => libcall("to_array_iter", || sonic_rs::to_array_iter(&*doc_fs).next().unwrap())?,
            _ => libcall("get_from_str", || sonic_rs::get_from_str(doc_text.as_str(), &["k"]))?,
        }
        .map_err(|e| Violation::new("mismatch/parse-error", format!("route {} failed on well-formed input {:?}: {}", route, doc_text, e)))?;
        // SAFETY (harness): the source text is kept alive by `doc_text`/`doc_fs` until the end of the run
        unsafe { std::mem::transmute::<LazyValue<'_>, LazyValue<'static>>(lv) }
    };
    let shared = Arc::new(Keep(lv));
    let nthreads = range(2, 3) as usize;
    let errs: Arc<Mutex<Vec<Violation>>> = Arc::new(Mutex::new(Vec::new()));
    let mut progs: Vec<Box<dyn FnOnce() + Send>> = Vec::new();
    for t in 0..nthreads {
        let nops = range(1, 4);
        let ops: Vec<LOp> = (0..nops)
            .map(|_| match draw(10) {
                9 => LOp::CloneToOwned,
                0 | 1 | 2 => LOp::AsStr,
                3 => LOp::AsStrTwice,
                4 => LOp::CloneReadDrop,
                5 => LOp::CloneKeep,
                6 => LOp::Debug,
                7 => if draw(2) == 0 { LOp::RawStr } else { LOp::TypeAndNumber },
                _ => LOp::DropHandle,
            })
            .collect();
        tr!("T{}: {:?}", t, ops);
        let rev = draw(2) == 1;
        let mut handle = Some(shared.clone());
        let errs = errs.clone();
        let decoded = decoded.clone();
        let raw = raw.clone();
        progs.push(Box::new(move || {
            let mut kept: Vec<LazyValue<'static>> = Vec::new();
            for op in ops {
                // the value this operation works on: the shared one, or a kept clone once the handle is gone
                let target: &LazyValue<'static> = match (&handle, kept.last()) {
                    (Some(h), _) => &h.0,
                    (None, Some(k)) => k,
                    (None, None) => break,
                };
                let what = format!("T{} {:?}", t, op);
                let ok = match op {
                    LOp::AsStr => collect(&errs, check_lazy_str(target, &decoded, &what)),
                    LOp::AsStrTwice => collect(&errs, check_lazy_str(target, &decoded, &what).and_then(|_| check_lazy_str(target, &decoded, &what))),
                    LOp::CloneReadDrop => {
                        let r = (|| {
                            let c = libcall("clone", || target.clone())?;
                            note_clone(&c);
                            check_lazy_str(&c, &decoded, &what)?;
                            if crate::choice::chance(1, 5) { crate::runner::drop_unwinding(c) } else { libcall("drop clone", move || drop(c)) }
                        })();
                        collect(&errs, r)
                    }
                    LOp::CloneKeep => match libcall("clone", || target.clone()) {
                        Ok(c) => {
                            note_clone(&c);
                            kept.push(c);
                            true
                        }
                        Err(v) => collect(&errs, Err(v)),
                    },
                    LOp::Debug => collect(&errs, libcall("debug", || format!("{:?}", target)).map(|_| ())),
                    LOp::RawStr => {
                        let r = libcall("as_raw_str", || target.as_raw_str().to_string()).and_then(|s| {
                            if s == raw {
                                Ok(())
                            } else {
                                Err(Violation::new("mismatch/as_raw_str", format!("{}: {:?} != {:?}", what, s, raw)))
                            }
                        });
                        collect(&errs, r)
                    }
                    LOp::TypeAndNumber => collect(&errs, libcall("scalars", || oracle::check_scalars(target, &decoded, &what)).and_then(|r| r)),
                    LOp::DropHandle => {
                        if let Some(h) = handle.take() {
                            collect(&errs, libcall("drop handle", move || drop(h)))
                        } else {
                            true
                        }
                    }
                    LOp::CloneToOwned => {
                        // a clone (sharing the published decoding, if any) is consumed by the
                        // borrowed-to-owned conversion while the original lives on
                        let r = (|| {
                            let c = libcall("clone", || target.clone())?;
                            let o = libcall("OwnedLazyValue::from(clone)", || OwnedLazyValue::from(c))?;
                            let got = libcall("owned.as_str", || o.as_str().map(|s| String::from_utf8_lossy(s.as_bytes()).into_owned()))?;
                            let want = if let J::Str(s) = &decoded { Some(s.clone()) } else { None };
                            libcall("drop owned", move || drop(o))?;
                            if got != want {
                                return Err(Violation::new("mismatch/as_str", format!("{}: owned.as_str = {:?}, model {:?}", what, got, want)));
                            }
                            check_lazy_str(target, &decoded, &what)
                        })();
                        collect(&errs, r)
                    }
                };
                if !ok {
                    break;
                }
            }
            // drop what is left, in drawn order
            let r = libcall("drop at thread end", move || {
                if rev {
                    kept.reverse();
                }
                drop(kept);
                drop(handle);
            });
            collect(&errs, r);
        }));
    }
    let results = sched::run_threads(progs);
    finish(results, &errs)?;
    // the driver holds the last handle
    let r = check_lazy_str(&shared.0, &decoded, "driver final read");
    libcall("drop original", move || drop(shared))?;
    r?;
    drop(doc_fs);
    drop(doc_text);
    Ok(())
}

fn note_clone(_c: &LazyValue<'static>) {
    trace::bump(C::lazy_clones);
}

/// Let the other simulated threads run while the caller keeps a reference it got from the library.
fn hold_across_yields() {
    if sched::baton() {
        sched::yield_point(103);
        sched::yield_point(103);
    } else {
        std::thread::yield_now();
    }
}

fn check_lazy_str(v: &LazyValue<'static>, decoded: &J, what: &str) -> Result<(), Violation> {
    // The `&str` borrows from the value, which stays alive: it must still read correctly after
    // other threads have run (a decoding that is replaced or freed early shows up here, as poison).
    let got: Option<&str> = libcall("as_str", || v.as_str())?;
    hold_across_yields();
    // (lossy copy: freed memory need not be UTF-8)
    let got = libcall("read held &str", || got.map(|s| String::from_utf8_lossy(s.as_bytes()).into_owned()))?;
    let want = if let J::Str(s) = decoded { Some(s.clone()) } else { None };
    if got != want {
        return Err(Violation::new("mismatch/as_str", format!("{}: as_str = {:?}, model {:?}", what, got, want)));
    }
    Ok(())
}

// ------------------------------------------------------------------------------------------

#[derive(Clone, Debug)]
enum OOp {
    Read(Vec<Step>),
    Pointer(Vec<Step>),
    Children(Vec<Step>),
    CloneRead(Vec<Step>),
    CloneKeep,
    /// clone the `as_array()` / `as_object()` view found at a path, turn the clone into a value, read and drop it
    CloneView(Vec<Step>),
    Debug,
    ToString,
    DropHandle,
}

fn navigate<'a>(v: &'a OwnedLazyValue, path: &[Step]) -> Option<&'a OwnedLazyValue> {
    let mut cur = v;
    for s in path {
        cur = match s {
            Step::Key(k) => cur.get(k.as_str())?,
            Step::Idx(i) => cur.get(*i)?,
        };
    }
    Some(cur)
}

fn check_owned_at(v: &OwnedLazyValue, model: &J, path: &[Step], use_pointer: bool, children: bool, what: &str) -> Result<(), Violation> {
    let want = gen::at_path(model, path);
    // the child reference borrows from the shared value's published parse: hold it while others run
    let got = libcall("navigate", || if use_pointer { v.pointer(&gen::to_pointer(path)) } else { navigate(v, path) })?;
    if got.is_some() {
        hold_across_yields();
    }
    libcall("read", || {
        match (got, want) {
            (None, None) => Ok(()),
            (Some(g), Some(m)) => {
                oracle::check_scalars(g, m, what)?;
                if children {
                    match m {
                        J::Arr(a) => {
                            let arr = g.as_array().ok_or_else(|| Violation::new("mismatch/as_array", format!("{}: None", what)))?;
                            if arr.len() != a.len() {
                                return Err(Violation::new("mismatch/array.len", format!("{}: {} != {}", what, arr.len(), a.len())));
                            }
                            for (x, mx) in arr.iter().zip(a) {
                                oracle::check_scalars(x, mx, what)?;
                            }
                        }
                        J::Obj(mm) => {
                            let obj = g.as_object().ok_or_else(|| Violation::new("mismatch/as_object", format!("{}: None", what)))?;
                            if obj.len() != mm.len() {
                                return Err(Violation::new("mismatch/object.len", format!("{}: {} != {}", what, obj.len(), mm.len())));
                            }
                            for ((k, x), (mk, mx)) in obj.iter().zip(mm) {
                                if k.as_str() != mk {
                                    return Err(Violation::new("mismatch/object.key", format!("{}: {:?} != {:?}", what, k, mk)));
                                }
                                oracle::check_scalars(x, mx, what)?;
                            }
                        }
                        _ => {
                            if g.as_array().is_some() || g.as_object().is_some() {
                                return Err(Violation::new("mismatch/as_container", format!("{}: scalar answered as container", what)));
                            }
                        }
                    }
                }
                Ok(())
            }
            (g, m) => Err(Violation::new("mismatch/get", format!("{}: path {} present={} but model present={}", what, gen::path_str(path), g.is_some(), m.is_some()))),
        }
    })?
}

fn owned_scenario() -> SimResult {
    let mut cfg = GenCfg::small();
    cfg.classes = gen::CL_PLAIN | gen::CL_QUOTE | if chance(1, 3) { gen::CL_CTRL | gen::CL_U3 } else { 0 };
    cfg.max_depth = range(1, 3);
    let model = match draw(6) {
        0 => J::Num(gen::gen_number()),
        1 => J::Str(gen::gen_string_len(cfg.classes | gen::CL_QUOTE, range(1, 30))),
        _ => gen::gen_container(&cfg),
    };
    let style = Style { ws: draw(3), esc: draw(3) };
    let text = gen::render(&model, &style);
    let route = draw(3);
    tr!("scenario owned route={} doc={}", route, text);
    let olv: OwnedLazyValue = match route {
        0 => libcall("from_str::<OwnedLazyValue>", || sonic_rs::from_str::<OwnedLazyValue>(&text))?,
        1 => libcall("From<LazyValue>", || sonic_rs::get_from_str(&text, &[] as &[usize]).map(OwnedLazyValue::from))?,
        _ => libcall("to_lazyvalue", || sonic_rs::to_lazyvalue(&crate::jser::SerJ(&model)))?,
    }
    .map_err(|e| Violation::new("mismatch/parse-error", format!("route {} failed on well-formed input {:?}: {}", route, text, e)))?;
    let shared = Arc::new(olv);
    let paths = gen::all_paths(&model);
    let draw_path = |paths: &Vec<Vec<Step>>| -> Vec<Step> {
        if chance(1, 10) {
            // a path that does not exist
            let mut p = pick(paths).clone();
            p.push(if draw(2) == 0 { Step::Key("nope".into()) } else { Step::Idx(99) });
            p
        } else {
            pick(paths).clone()
        }
    };
    let nthreads = range(2, 3) as usize;
    let errs: Arc<Mutex<Vec<Violation>>> = Arc::new(Mutex::new(Vec::new()));
    let mut progs: Vec<Box<dyn FnOnce() + Send>> = Vec::new();
    for t in 0..nthreads {
        let nops = range(1, 4);
        let ops: Vec<OOp> = (0..nops)
            .map(|_| match draw(10) {
                0 | 1 | 2 => OOp::Read(draw_path(&paths)),
                3 => OOp::Pointer(draw_path(&paths)),
                4 => OOp::Children(draw_path(&paths)),
                5 | 6 => OOp::CloneRead(draw_path(&paths)),
                7 => if draw(2) == 0 { OOp::CloneKeep } else { OOp::CloneView(draw_path(&paths)) },
                8 => if draw(2) == 0 { OOp::Debug } else { OOp::ToString },
                _ => OOp::DropHandle,
            })
            .collect();
        tr!("T{}: {:?}", t, ops);
        let rev = draw(2) == 1;
        let mut handle = Some(shared.clone());
        let errs = errs.clone();
        let model = model.clone();
        progs.push(Box::new(move || {
            let mut kept: Vec<OwnedLazyValue> = Vec::new();
            for op in ops {
                let target: &OwnedLazyValue = match (&handle, kept.last()) {
                    (Some(h), _) => h,
                    (None, Some(k)) => k,
                    (None, None) => break,
                };
                let what = format!("T{} {:?}", t, op);
                let ok = match &op {
                    OOp::Read(p) => collect(&errs, check_owned_at(target, &model, p, false, false, &what)),
                    OOp::Pointer(p) => collect(&errs, check_owned_at(target, &model, p, true, false, &what)),
                    OOp::Children(p) => collect(&errs, check_owned_at(target, &model, p, false, true, &what)),
                    OOp::CloneRead(p) => {
                        let r = (|| {
                            let c = libcall("clone", || target.clone())?;
                            trace::bump(C::lazy_clones);
                            check_owned_at(&c, &model, p, false, true, &what)?;
                            let s = libcall("to_string(clone)", || sonic_rs::to_string(&c))?
                                .map_err(|e| Violation::new("mismatch/serialize-error", format!("{}: {}", what, e)))?;
                            oracle::check_serialized(&s, &model, &what)?;
                            if crate::choice::chance(1, 5) { crate::runner::drop_unwinding(c) } else { libcall("drop clone", move || drop(c)) }
                        })();
                        collect(&errs, r)
                    }
                    OOp::CloneView(p) => {
                        let r = (|| {
                            let want = gen::at_path(&model, p);
                            let c: Option<OwnedLazyValue> = libcall("view.clone()", || {
                                let at = navigate(target, p)?;
                                if let Some(a) = at.as_array() {
                                    Some(OwnedLazyValue::from(a.clone()))
                                } else {
                                    at.as_object().map(|o| OwnedLazyValue::from(o.clone()))
                                }
                            })?;
                            match (c, want) {
                                (Some(c), Some(w)) if matches!(w, J::Arr(_) | J::Obj(_)) => {
                                    trace::bump(C::lazy_clones);
                                    let s = libcall("to_string(cloned view)", || sonic_rs::to_string(&c))?
                                        .map_err(|e| Violation::new("mismatch/serialize-error", format!("{}: {}", what, e)))?;
                                    oracle::check_serialized(&s, w, &what)?;
                                    libcall("drop cloned view", move || drop(c))
                                }
                                (None, Some(w)) if matches!(w, J::Arr(_) | J::Obj(_)) => Err(Violation::new("mismatch/as_array", format!("{}: no container view at {} but the model has one", what, gen::path_str(p)))),
                                (None, _) => Ok(()),
                                (Some(_), _) => Err(Violation::new("mismatch/as_array", format!("{}: a container view at {} where the model has none", what, gen::path_str(p)))),
                            }
                        })();
                        collect(&errs, r)
                    }
                    OOp::CloneKeep => match libcall("clone", || target.clone()) {
                        Ok(c) => {
                            trace::bump(C::lazy_clones);
                            kept.push(c);
                            true
                        }
                        Err(v) => collect(&errs, Err(v)),
                    },
                    OOp::Debug => collect(&errs, libcall("debug", || format!("{:?}", target)).map(|_| ())),
                    OOp::ToString => {
                        let r = libcall("to_string", || sonic_rs::to_string(target)).and_then(|r| match r {
                            Ok(s) => oracle::check_serialized(&s, &model, &what),
                            Err(e) => Err(Violation::new("mismatch/serialize-error", format!("{}: {}", what, e))),
                        });
                        collect(&errs, r)
                    }
                    OOp::DropHandle => {
                        if let Some(h) = handle.take() {
                            collect(&errs, libcall("drop handle", move || drop(h)))
                        } else {
                            true
                        }
                    }
                };
                if !ok {
                    break;
                }
            }
            let r = libcall("drop at thread end", move || {
                if rev {
                    kept.reverse();
                }
                drop(kept);
                drop(handle);
            });
            collect(&errs, r);
        }));
    }
    let results = sched::run_threads(progs);
    finish(results, &errs)?;
    let r = check_owned_at(&shared, &model, &[], false, true, "driver final read");
    let s = libcall("to_string(final)", || sonic_rs::to_string(&*shared))?;
    r?;
    match s {
        Ok(s) => oracle::check_serialized(&s, &model, "driver final to_string")?,
        Err(e) => return Err(Violation::new("mismatch/serialize-error", format!("final: {}", e))),
    }
    // After the concurrent phase the driver is the only owner again: the cache a reader published
    // is now taken out of its box by the first mutable access (or freed with the value).
    match Arc::try_unwrap(shared) {
        Ok(mut owned) => {
            use sonic_rs::JsonValueMutTrait;
            let mut m = model.clone();
            match draw(3) {
                0 => {}
                1 => {
                    tr!("driver: mutable access after the concurrent phase");
                    let pushed = libcall("as_array_mut / as_object_mut", || {
                        if let Some(a) = owned.as_array_mut() {
                            a.push(OwnedLazyValue::from(true));
                            1
                        } else if let Some(o) = owned.as_object_mut() {
                            o.append_pair(FastStr::new("\u{1}added"), OwnedLazyValue::from(()));
                            2
                        } else {
                            0
                        }
                    })?;
                    match (&mut m, pushed) {
                        (J::Arr(a), 1) => a.push(J::Bool(true)),
                        (J::Obj(o), 2) => o.push(("\u{1}added".into(), J::Null)),
                        (J::Arr(_), _) | (J::Obj(_), _) => return Err(Violation::new("mismatch/as_container_mut", "as_array_mut/as_object_mut returned None on a container".to_string())),
                        (_, 0) => {}
                        _ => return Err(Violation::new("mismatch/as_container_mut", "a scalar answered as a mutable container".to_string())),
                    }
                }
                _ => {
                    tr!("driver: take after the concurrent phase");
                    let taken = libcall("take", || owned.take())?;
                    check_owned_at(&taken, &m, &[], false, true, "driver: taken value")?;
                    check_owned_at(&owned, &J::Null, &[], false, false, "driver: value left by take")?;
                    libcall("drop", move || drop(owned))?;
                    owned = taken;
                }
            }
            check_owned_at(&owned, &m, &[], false, true, "driver: read after mutable access")?;
            let s = libcall("to_string(after mutable access)", || sonic_rs::to_string(&owned))?.map_err(|e| Violation::new("mismatch/serialize-error", format!("final: {}", e)))?;
            oracle::check_serialized(&s, &m, "driver: to_string after mutable access")?;
            libcall("drop original", move || drop(owned))?;
        }
        Err(shared) => {
            libcall("drop original", move || drop(shared))?;
        }
    }
    let _ = refjson::to_compact(&model);
    Ok(())
}
