//! `Serialize` for the reference model (so a model value can be fed to sonic's serializer).

use serde::ser::{Serialize, SerializeMap, SerializeSeq, Serializer};

use crate::refjson::{num_val, NumVal, J};

pub struct SerJ<'a>(pub &'a J);

impl<'a> Serialize for SerJ<'a> {
    fn serialize<S: Serializer>(&self, s: S) -> Result<S::Ok, S::Error> {
        match self.0 {
            J::Null => s.serialize_unit(),
            J::Bool(b) => s.serialize_bool(*b),
            J::Num(n) => match num_val(n) {
                NumVal::U(u) => s.serialize_u64(u),
                NumVal::I(i) => s.serialize_i64(i),
                NumVal::F(f) => s.serialize_f64(f),
            },
            J::Str(x) => s.serialize_str(x),
            J::Arr(a) => {
                let mut seq = s.serialize_seq(Some(a.len()))?;
                for x in a {
                    seq.serialize_element(&SerJ(x))?;
                }
                seq.end()
            }
            J::Obj(m) => {
                let mut map = s.serialize_map(Some(m.len()))?;
                for (k, v) in m {
                    map.serialize_entry(k, &SerJ(v))?;
                }
                map.end()
            }
        }
    }
}
