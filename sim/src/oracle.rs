//! Comparison of sonic-rs values with the reference model through the public read API.

use sonic_rs::{JsonNumberTrait, JsonType, JsonValueTrait};

use crate::refjson::{num_val, Kind, NumVal, J};
use crate::runner::Violation;
use crate::trace::{self, C};

pub fn kind_of(t: JsonType) -> Kind {
    match t {
        JsonType::Null => Kind::Null,
        JsonType::Boolean => Kind::Bool,
        JsonType::Number => Kind::Num,
        JsonType::String => Kind::Str,
        JsonType::Array => Kind::Arr,
        JsonType::Object => Kind::Obj,
    }
}

fn mismatch(what: &str, field: &str, got: String, want: String) -> Violation {
    Violation::new(
        format!("mismatch/{}", field),
        format!("{}: {} = {} but the model says {}", what, field, got, want),
    )
}

pub fn expected_u64(lit: &str) -> Option<u64> {
    match num_val(lit) {
        NumVal::U(u) => Some(u),
        _ => None,
    }
}
pub fn expected_i64(lit: &str) -> Option<i64> {
    match num_val(lit) {
        NumVal::U(u) if u <= i64::MAX as u64 => Some(u as i64),
        NumVal::I(i) => Some(i),
        _ => None,
    }
}
pub fn expected_f64(lit: &str) -> Option<f64> {
    match num_val(lit) {
        NumVal::U(u) => Some(u as f64),
        NumVal::I(i) => Some(i as f64),
        NumVal::F(f) if f.is_finite() => Some(f),
        _ => None,
    }
}

/// All scalar accessors of `v` against model node `m`.
pub fn check_scalars<V: JsonValueTrait>(v: &V, m: &J, what: &str) -> Result<(), Violation> {
    trace::bump(C::oracle_compares);
    let k = kind_of(v.get_type());
    if k != m.kind() {
        return Err(mismatch(what, "get_type", format!("{:?}", k), format!("{:?}", m.kind())));
    }
    let flags = [
        ("is_null", v.is_null(), m.kind() == Kind::Null),
        ("is_boolean", v.is_boolean(), m.kind() == Kind::Bool),
        ("is_number", v.is_number(), m.kind() == Kind::Num),
        ("is_str", v.is_str(), m.kind() == Kind::Str),
        ("is_array", v.is_array(), m.kind() == Kind::Arr),
        ("is_object", v.is_object(), m.kind() == Kind::Obj),
        ("is_true", v.is_true(), *m == J::Bool(true)),
        // `is_false` is defined by the trait as `!is_true()` for every implementor (DOM and lazy
        // alike), so that is what "the same result as the DOM" means here.
        ("is_false", v.is_false(), *m != J::Bool(true)),
    ];
    for (n, got, want) in flags {
        if got != want {
            return Err(mismatch(what, n, got.to_string(), want.to_string()));
        }
    }
    let want_bool = if let J::Bool(b) = m { Some(*b) } else { None };
    let got_bool = v.as_bool();
    if got_bool != want_bool {
        return Err(mismatch(what, "as_bool", format!("{:?}", got_bool), format!("{:?}", want_bool)));
    }
    let want_str = if let J::Str(s) = m { Some(s.as_str()) } else { None };
    let got_str = v.as_str();
    if got_str.map(|s| s.as_bytes()) != want_str.map(|s| s.as_bytes()) {
        // (lossy rendering: a dangling string need not be UTF-8)
        return Err(mismatch(what, "as_str", format!("{:?}", got_str.map(|s| String::from_utf8_lossy(s.as_bytes()).into_owned())), format!("{:?}", want_str)));
    }
    let (wu, wi, wf) = if let J::Num(n) = m { (expected_u64(n), expected_i64(n), expected_f64(n)) } else { (None, None, None) };
    let gu = v.as_u64();
    if gu != wu {
        return Err(mismatch(what, "as_u64", format!("{:?}", gu), format!("{:?}", wu)));
    }
    let gi = v.as_i64();
    if gi != wi {
        return Err(mismatch(what, "as_i64", format!("{:?}", gi), format!("{:?}", wi)));
    }
    let gf = v.as_f64();
    if gf.map(f64::to_bits) != wf.map(f64::to_bits) && !(gf == wf && gf.is_some()) {
        return Err(mismatch(what, "as_f64", format!("{:?}", gf), format!("{:?}", wf)));
    }
    let num = v.as_number();
    if num.is_some() != (m.kind() == Kind::Num) {
        return Err(mismatch(what, "as_number", format!("{:?}", num), format!("is_some={}", m.kind() == Kind::Num)));
    }
    if let Some(n) = num {
        if n.as_u64() != wu || n.as_i64() != wi {
            return Err(mismatch(what, "as_number", format!("{:?}", n), format!("u64={:?} i64={:?}", wu, wi)));
        }
        let is = (v.is_u64(), v.is_i64(), v.is_f64());
        let want = (wu.is_some(), wi.is_some(), wu.is_none() && wi.is_none());
        if is != want {
            return Err(mismatch(what, "is_u64/is_i64/is_f64", format!("{:?}", is), format!("{:?}", want)));
        }
    }
    Ok(())
}

/// Full structural comparison of a DOM `Value` with the model, through the public read API
/// (not through serialization).
pub fn check_value(v: &sonic_rs::Value, m: &J, what: &str) -> Result<(), Violation> {
    use sonic_rs::{JsonContainerTrait, ValueRef};
    check_scalars(v, m, what)?;
    // the ValueRef view must tell the same story
    match (v.as_ref(), m) {
        (ValueRef::Null, J::Null) => {}
        (ValueRef::Bool(b), J::Bool(mb)) if b == *mb => {}
        (ValueRef::Number(n), J::Num(lit)) => {
            if n.as_u64() != expected_u64(lit) || n.as_i64() != expected_i64(lit) {
                return Err(mismatch(what, "as_ref()", format!("Number({:?})", n), lit.clone()));
            }
        }
        (ValueRef::String(s), J::Str(ms)) if s.as_bytes() == ms.as_bytes() => {}
        (ValueRef::Array(a), J::Arr(ma)) if a.len() == ma.len() => {}
        (ValueRef::Object(o), J::Obj(mo)) if o.len() == mo.len() => {}
        (r, _) => {
            let kind = match r {
                ValueRef::Null => "Null",
                ValueRef::Bool(_) => "Bool",
                ValueRef::Number(_) => "Number",
                ValueRef::String(_) => "String",
                ValueRef::Array(_) => "Array",
                ValueRef::Object(_) => "Object",
            };
            return Err(mismatch(what, "as_ref()", format!("ValueRef::{} (or its content / length)", kind), m.canon()));
        }
    }
    // the raw-number view: None, or the literal the number was written with
    if let Some(r) = sonic_rs::JsonValueTrait::as_raw_number(v) {
        match m {
            J::Num(lit) if r.as_str() == lit => {}
            _ => return Err(mismatch(what, "as_raw_number", format!("Some({:?})", truncate(r.as_str())), m.canon())),
        }
    }
    // equality with plain Rust values, both ways round
    let eq_ok = match m {
        J::Null => !(*v == false) && !(*v == "") && !(*v == 0u64) && !(0i64 == *v),
        J::Bool(b) => *v == *b && *b == *v && !(*v == !*b) && !(*v == "true") && !(*v == 1u64),
        J::Str(ms) => {
            let longer = format!("{}x", ms);
            *v == ms.as_str() && ms.as_str() == *v && *v == *ms && *ms == *v && v == ms.as_str() && !(*v == longer) && !(*v == longer.as_str()) && !(*v == 0u64) && !(*v == false)
        }
        J::Num(lit) => {
            let u = expected_u64(lit).map(|n| *v == n && n == *v && !(*v == n.wrapping_add(1))).unwrap_or(!(*v == 0u64));
            let i = expected_i64(lit).map(|n| *v == n && n == *v && !(*v == n.wrapping_sub(1))).unwrap_or(true);
            u && i && !(*v == "0") && !(*v == true)
        }
        J::Arr(_) | J::Obj(_) => !(*v == "") && !(*v == 0u64) && !(*v == false),
    };
    if !eq_ok {
        return Err(mismatch(what, "PartialEq with a plain value", "wrong".into(), m.canon()));
    }
    match m {
        J::Arr(a) => {
            let arr = v.as_array().ok_or_else(|| mismatch(what, "as_array", "None".into(), "Some".into()))?;
            if arr.len() != a.len() {
                return Err(mismatch(what, "array.len", arr.len().to_string(), a.len().to_string()));
            }
            for (i, (x, mx)) in arr.iter().zip(a.iter()).enumerate() {
                check_value(x, mx, &format!("{}/{}", what, i))?;
                // positional access must agree with iteration
                match v.get(i) {
                    Some(g) if std::ptr::eq(g, x) => {}
                    _ => return Err(mismatch(what, "get(index)", format!("element {} not the iterated one", i), "same element".into())),
                }
            }
            if v.get(a.len()).is_some() || v.get("0").is_some() || arr.is_empty() != a.is_empty() {
                return Err(mismatch(what, "get(len) / get(key) / is_empty on an array", "Some / wrong".into(), "None / right".into()));
            }
            for i in 0..a.len() {
                let x = &arr[i];
                let same = [v.get(&i), v.get(sonic_rs::PointerNode::Index(i)), v.pointer(&[i]), Some(&v[i]), arr.as_slice().get(i)];
                if same.iter().any(|y| !matches!(y, Some(y) if std::ptr::eq(*y, x))) {
                    return Err(mismatch(what, "get(index)", format!("&usize / PointerNode / pointer / Index / slice disagree on {}", i), "same element".into()));
                }
            }
        }
        J::Obj(mm) => {
            let obj = v.as_object().ok_or_else(|| mismatch(what, "as_object", "None".into(), "Some".into()))?;
            if obj.len() != mm.len() {
                return Err(mismatch(what, "object.len", obj.len().to_string(), mm.len().to_string()));
            }
            let mut seen = 0;
            // member names may repeat in a parsed, never-mutated object: iteration is then in document order
            // and is compared position by position; a lookup by key means the first member of that name
            let dup = mm.iter().enumerate().any(|(i, (k, _))| mm.iter().position(|(kk, _)| kk == k) != Some(i));
            for (i, (k, x)) in obj.iter().enumerate() {
                let mx = if dup {
                    if mm[i].0 != k {
                        return Err(mismatch(what, "object.iter", format!("member {} is {:?}", i, k), format!("{:?}", mm[i].0)));
                    }
                    &mm[i].1
                } else if let Some(mx) = m.get_key(k) {
                    mx
                } else {
                    return Err(mismatch(what, "object.iter", format!("unexpected key {:?}", k), "absent".into()));
                };
                check_value(x, mx, &format!("{}/{:?}", what, k))?;
                seen += 1;
            }
            if seen != mm.len() {
                return Err(mismatch(what, "object.iter count", seen.to_string(), mm.len().to_string()));
            }
            for (k, _) in mm {
                let mx = m.get_key(k).expect("first member of that name");
                match v.get(k.as_str()) {
                    Some(x) => {
                        check_scalars(x, mx, &format!("{}/{:?}", what, k))?;
                        // every key type and access path leads to the same member
                        let fs = sonic_rs::FastStr::new(k);
                        let same = [v.get(k), v.get(&fs), v.get(sonic_rs::PointerNode::Key(fs.clone())), v.pointer(&[k.as_str()]), Some(&v[k.as_str()]), obj.get(k), obj.get(&k.as_str())];
                        if same.iter().any(|y| !matches!(y, Some(y) if std::ptr::eq(*y, x))) {
                            return Err(mismatch(what, "get(key)", format!("String / FastStr / PointerNode / pointer / Index / Object::get disagree on {:?}", k), "same member".into()));
                        }
                        if !obj.contains_key(k) {
                            return Err(mismatch(what, "contains_key", format!("false for {:?}", k), "true".into()));
                        }
                    }
                    None => return Err(mismatch(what, "get(key)", format!("None for {:?}", k), "Some".into())),
                }
            }
            if v.get("\u{1}\u{1}absent").is_some() || v.get(0usize).is_some() || obj.is_empty() != mm.is_empty() {
                return Err(mismatch(what, "get(absent) / get(index) / is_empty on an object", "Some / wrong".into(), "None / right".into()));
            }
        }
        _ => {}
    }
    Ok(())
}

/// Serialize through sonic-rs and compare with the model by reference re-parse.
pub fn check_serialized(text: &str, m: &J, what: &str) -> Result<(), Violation> {
    match crate::refjson::parse(text) {
        Ok(j) => {
            if !j.sem_eq(m) {
                return Err(mismatch(what, "serialized", format!("{}", truncate(text)), m.canon()));
            }
            Ok(())
        }
        Err(e) => Err(Violation::new(
            "mismatch/serialized-not-json",
            format!("{}: output is not well-formed JSON at byte {} ({}): {}", what, e.pos, e.msg, truncate(text)),
        )),
    }
}

pub fn truncate(s: &str) -> String {
    // text handed out by the library may come from freed memory: never assume it is UTF-8
    let lossy = String::from_utf8_lossy(s.as_bytes());
    let s: &str = &lossy;
    if s.len() <= 300 {
        s.to_string()
    } else {
        let mut e = 300;
        while !s.is_char_boundary(e) {
            e -= 1;
        }
        format!("{}…(+{} bytes)", &s[..e], s.len() - e)
    }
}
