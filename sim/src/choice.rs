//! The choice stream: every decision of a run (workload, schedule, faults, knobs) is one
//! `draw`. Seeded mode derives the values from one integer and records them; replay mode
//! feeds a recorded (or minimised) list back. 0 is always the "boring" choice.

use std::sync::Mutex;

pub struct Rng(u64, u64, u64, u64);

fn splitmix(x: &mut u64) -> u64 {
    *x = x.wrapping_add(0x9E37_79B9_7F4A_7C15);
    let mut z = *x;
    z = (z ^ (z >> 30)).wrapping_mul(0xBF58_476D_1CE4_E5B9);
    z = (z ^ (z >> 27)).wrapping_mul(0x94D0_49BB_1331_11EB);
    z ^ (z >> 31)
}

impl Rng {
    pub fn new(seed: u64) -> Self {
        let mut s = seed;
        Rng(splitmix(&mut s), splitmix(&mut s), splitmix(&mut s), splitmix(&mut s))
    }
    // xoshiro256**
    pub fn next(&mut self) -> u64 {
        let r = self.1.wrapping_mul(5).rotate_left(7).wrapping_mul(9);
        let t = self.1 << 17;
        self.2 ^= self.0;
        self.3 ^= self.1;
        self.1 ^= self.2;
        self.0 ^= self.3;
        self.2 ^= t;
        self.3 = self.3.rotate_left(45);
        r
    }
}

pub fn run_seed(seed: u64, sim: &str, run: u64) -> u64 {
    let mut h: u64 = 0xcbf2_9ce4_8422_2325;
    for b in sim.bytes() {
        h = (h ^ b as u64).wrapping_mul(0x100_0000_01b3);
    }
    let mut s = seed ^ h.rotate_left(17) ^ run.wrapping_mul(0x9E37_79B9_7F4A_7C15);
    splitmix(&mut s)
}

enum Mode {
    Seeded(Rng),
    Replay { data: Vec<u32>, pos: usize },
}

pub struct State {
    mode: Mode,
    log: Vec<u32>,
}

/// >= 0: every choice is also written to this fd at once (crash forensics)
static LIVE_FD: std::sync::atomic::AtomicI32 = std::sync::atomic::AtomicI32::new(-1);

static STATE: Mutex<Option<State>> = Mutex::new(None);

fn mark_live() {
    let fd = LIVE_FD.load(std::sync::atomic::Ordering::Relaxed);
    if fd >= 0 {
        unsafe { libc::write(fd, b"#\n".as_ptr() as *const _, 2) };
    }
}

pub fn begin_seeded(seed: u64) {
    mark_live();
    let mut g = STATE.lock().unwrap_or_else(|e| e.into_inner());
    let log = g.take().map(|s| { let mut l = s.log; l.clear(); l }).unwrap_or_default();
    *g = Some(State { mode: Mode::Seeded(Rng::new(seed)), log });
}

pub fn begin_replay(data: &[u32]) {
    mark_live();
    let mut g = STATE.lock().unwrap_or_else(|e| e.into_inner());
    let log = g.take().map(|s| { let mut l = s.log; l.clear(); l }).unwrap_or_default();
    *g = Some(State { mode: Mode::Replay { data: data.to_vec(), pos: 0 }, log });
}

pub fn set_live_fd(fd: i32) {
    LIVE_FD.store(fd, std::sync::atomic::Ordering::SeqCst);
}

/// The values drawn so far in this run (effective values, i.e. already reduced to the bound).
pub fn log() -> Vec<u32> {
    let g = STATE.lock().unwrap_or_else(|e| e.into_inner());
    g.as_ref().map(|s| s.log.clone()).unwrap_or_default()
}

pub fn log_len() -> usize {
    let g = STATE.lock().unwrap_or_else(|e| e.into_inner());
    g.as_ref().map(|s| s.log.len()).unwrap_or(0)
}

thread_local! {
    /// free-running mode (Miri): each simulated thread draws from its own generator, so that drawing
    /// does not synchronise the threads with each other
    static THREAD_RNG: std::cell::RefCell<Option<Rng>> = const { std::cell::RefCell::new(None) };
}

pub fn set_thread_rng(seed: u64) {
    THREAD_RNG.with(|r| *r.borrow_mut() = Some(Rng::new(seed)));
}

/// Draw a value in `0..bound` (bound >= 1).
pub fn draw(bound: u32) -> u32 {
    let local = THREAD_RNG.with(|r| r.borrow_mut().as_mut().map(|g| (g.next() % bound.max(1) as u64) as u32));
    if let Some(v) = local {
        return v;
    }
    crate::heap::harness(|| {
        let mut g = STATE.lock().unwrap_or_else(|e| e.into_inner());
        let s = g.as_mut().expect("choice stream not started");
        let b = bound.max(1);
        let v = match &mut s.mode {
            Mode::Seeded(r) => (r.next() % b as u64) as u32,
            Mode::Replay { data, pos } => {
                let v = if *pos < data.len() { data[*pos] % b } else { 0 };
                *pos += 1;
                v
            }
        };
        s.log.push(v);
        let fd = LIVE_FD.load(std::sync::atomic::Ordering::Relaxed);
        if fd >= 0 {
            let txt = format!("{}\n", v);
            unsafe { libc::write(fd, txt.as_ptr() as *const _, txt.len()) };
        }
        v
    })
}

/// true with probability num/den (0 = false = boring)
pub fn chance(num: u32, den: u32) -> bool {
    draw(den) >= den - num
}

pub fn pick<'a, T>(xs: &'a [T]) -> &'a T {
    &xs[draw(xs.len() as u32) as usize]
}

/// value in lo..=hi
pub fn range(lo: u32, hi: u32) -> u32 {
    lo + draw(hi - lo + 1)
}
