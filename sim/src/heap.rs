//! Simulated heap: a global-allocator wrapper over `System` that keeps a ledger of every live
//! block, checks every free (unknown pointer, double free, wrong layout), poisons and
//! quarantines freed blocks until the end of the run (so use-after-free reads 0xDE and
//! write-after-free is detected when the quarantine is drained), puts a canary behind every
//! block allocated inside library scope (heap overflow) and counts library-scope blocks that
//! are still live at the end of a run (leaks).
//!
//! Nothing in here allocates through the global allocator.

use std::alloc::{GlobalAlloc, Layout, System};
use std::cell::Cell;
use std::sync::atomic::{AtomicBool, AtomicU32, AtomicU64, AtomicUsize, Ordering};

pub struct SimHeap;

const POISON: u8 = 0xDE;
const CANARY: u8 = 0xC5;
const CANARY_LEN: usize = 32;
const TABLE_BITS: usize = 22;
const TABLE_CAP: usize = 1 << TABLE_BITS;
const QUARANTINE_CAP: usize = 1 << 16;
const QUARANTINE_MAX_BYTES: usize = 256 << 20;

const F_LIB: u8 = 1; // allocated inside library scope
const F_QUAR: u8 = 2; // freed, sitting in quarantine
const F_CANARY: u8 = 4; // has a tail canary

#[derive(Clone, Copy)]
#[repr(C)]
struct Entry {
    ptr: usize, // 0 = empty
    size: usize,
    align: u32,
    run: u32,
    flags: u8,
}

const EMPTY: Entry = Entry {
    ptr: 0,
    size: 0,
    align: 0,
    run: 0,
    flags: 0,
};

struct Ledger {
    table: *mut Entry,
    used: usize,
    quar: *mut usize, // pointers in quarantine (entries stay in the table with F_QUAR)
    quar_len: usize,
    quar_bytes: usize,
}

static LOCK: AtomicBool = AtomicBool::new(false);
static mut LEDGER: Ledger = Ledger {
    table: std::ptr::null_mut(),
    used: 0,
    quar: std::ptr::null_mut(),
    quar_len: 0,
    quar_bytes: 0,
};

static RUN_ID: AtomicU32 = AtomicU32::new(0);
static RUN_ACTIVE: AtomicBool = AtomicBool::new(false);
static LIB_LIVE: AtomicUsize = AtomicUsize::new(0); // library-scope blocks of this run still live
static LIB_ALLOCS: AtomicU64 = AtomicU64::new(0);
static LIB_FREES: AtomicU64 = AtomicU64::new(0);
static ENABLED: AtomicBool = AtomicBool::new(true);
/// Reuse mode (a per-run knob): freed library blocks are not quarantined but kept on LIFO free lists
/// by exact size and handed out again at once, on any thread. Use-after-free then reads live data of
/// another object instead of poison, and stale address-keyed state (ABA) gets its chance.
static REUSE: AtomicBool = AtomicBool::new(false);
const REUSE_BUCKETS: usize = 256;
const REUSE_DEPTH: usize = 8;
static mut REUSE_LISTS: [[(usize, usize, usize); REUSE_DEPTH]; REUSE_BUCKETS] = [[(0, 0, 0); REUSE_DEPTH]; REUSE_BUCKETS];

/// own little generator for reuse decisions (the allocator cannot call into the choice stream);
/// seeded per run from a drawn value, so the run stays a pure function of its choices
static REUSE_RNG: AtomicU64 = AtomicU64::new(1);

pub fn set_reuse_mode(on: bool, seed: u64) {
    REUSE_RNG.store(seed | 1, Ordering::SeqCst);
    REUSE.store(on, Ordering::SeqCst);
}

fn reuse_rand() -> u64 {
    // xorshift64*, only ever advanced while the ledger lock is held
    let mut x = REUSE_RNG.load(Ordering::Relaxed);
    x ^= x >> 12;
    x ^= x << 25;
    x ^= x >> 27;
    REUSE_RNG.store(x, Ordering::Relaxed);
    x.wrapping_mul(0x2545_F491_4F6C_DD1D)
}

fn bucket(size: usize, align: usize) -> usize {
    (size.wrapping_mul(31) ^ align) % REUSE_BUCKETS
}

// first violation of the run, kept in a fixed buffer
static VIOL_SET: AtomicBool = AtomicBool::new(false);
static mut VIOL_BUF: [u8; 256] = [0; 256];
static mut VIOL_LEN: usize = 0;

thread_local! {
    static LIB: Cell<bool> = const { Cell::new(false) };
}

struct LockGuard;
fn lock() -> LockGuard {
    while LOCK
        .compare_exchange_weak(false, true, Ordering::Acquire, Ordering::Relaxed)
        .is_err()
    {
        std::hint::spin_loop();
    }
    LockGuard
}
impl Drop for LockGuard {
    fn drop(&mut self) {
        LOCK.store(false, Ordering::Release);
    }
}

#[inline]
fn hash(p: usize) -> usize {
    let mut x = (p >> 3) as u64;
    x = x.wrapping_mul(0x9E37_79B9_7F4A_7C15);
    (x >> (64 - TABLE_BITS)) as usize
}

unsafe fn sys_map(bytes: usize) -> *mut u8 {
    let p = libc::mmap(
        std::ptr::null_mut(),
        bytes,
        libc::PROT_READ | libc::PROT_WRITE,
        libc::MAP_PRIVATE | libc::MAP_ANONYMOUS,
        -1,
        0,
    );
    if p == libc::MAP_FAILED {
        libc::abort();
    }
    p as *mut u8
}

#[allow(static_mut_refs)]
unsafe fn ledger() -> &'static mut Ledger {
    let l = &mut LEDGER;
    if l.table.is_null() {
        l.table = sys_map(TABLE_CAP * std::mem::size_of::<Entry>()) as *mut Entry; // zeroed
        l.quar = sys_map(QUARANTINE_CAP * std::mem::size_of::<usize>()) as *mut usize;
    }
    l
}

impl Ledger {
    unsafe fn find(&mut self, p: usize) -> Option<usize> {
        let mut i = hash(p);
        loop {
            let e = &*self.table.add(i);
            if e.ptr == 0 {
                return None;
            }
            if e.ptr == p {
                return Some(i);
            }
            i = (i + 1) & (TABLE_CAP - 1);
        }
    }

    unsafe fn insert(&mut self, ent: Entry) {
        if self.used * 2 > TABLE_CAP {
            let msg = b"dsim heap: ledger full\n";
            libc::write(2, msg.as_ptr() as *const _, msg.len());
            libc::_exit(2);
        }
        let mut i = hash(ent.ptr);
        loop {
            let e = &mut *self.table.add(i);
            if e.ptr == 0 {
                *e = ent;
                self.used += 1;
                return;
            }
            i = (i + 1) & (TABLE_CAP - 1);
        }
    }

    // backward-shift deletion for linear probing
    unsafe fn remove_at(&mut self, mut i: usize) {
        self.used -= 1;
        let mask = TABLE_CAP - 1;
        let mut j = i;
        loop {
            j = (j + 1) & mask;
            let ej = *self.table.add(j);
            if ej.ptr == 0 {
                break;
            }
            let k = hash(ej.ptr);
            // can ej move to i?  (k not in the cyclic interval (i, j])
            let in_between = if i <= j {
                k > i && k <= j
            } else {
                k > i || k <= j
            };
            if !in_between {
                *self.table.add(i) = ej;
                i = j;
            }
        }
        *self.table.add(i) = EMPTY;
    }
}

#[allow(static_mut_refs)]
fn set_violation(kind: &str, ptr: usize, a: usize, b: usize, c: usize, d: usize) {
    if VIOL_SET.swap(true, Ordering::SeqCst) {
        return;
    }
    // format without allocating
    struct W {
        n: usize,
    }
    impl std::fmt::Write for W {
        fn write_str(&mut self, s: &str) -> std::fmt::Result {
            unsafe {
                let room = VIOL_BUF.len() - self.n;
                let k = s.len().min(room);
                VIOL_BUF[self.n..self.n + k].copy_from_slice(&s.as_bytes()[..k]);
                self.n += k;
            }
            Ok(())
        }
    }
    let mut w = W { n: 0 };
    use std::fmt::Write;
    let _ = write!(
        w,
        "{} block_size={} block_align={} given_size={} given_align={}",
        kind, a, b, c, d
    );
    let _ = ptr;
    unsafe {
        VIOL_LEN = w.n;
    }
}

/// Take (and clear) the first heap violation recorded since the last call.
#[allow(static_mut_refs)]
pub fn take_violation() -> Option<String> {
    if !VIOL_SET.load(Ordering::SeqCst) {
        return None;
    }
    let s = unsafe { String::from_utf8_lossy(&VIOL_BUF[..VIOL_LEN]).into_owned() };
    VIOL_SET.store(false, Ordering::SeqCst);
    Some(s)
}

pub fn has_violation() -> bool {
    VIOL_SET.load(Ordering::SeqCst)
}

unsafe impl GlobalAlloc for SimHeap {
    unsafe fn alloc(&self, layout: Layout) -> *mut u8 {
        if !ENABLED.load(Ordering::Relaxed) {
            return System.alloc(layout);
        }
        let active = RUN_ACTIVE.load(Ordering::Relaxed);
        let lib = LIB.try_with(|c| c.get()).unwrap_or(false) && active;
        // every block allocated during a run carries a tail canary: buffers the harness hands to the library
        // (writers, inputs) are written to by the library too, and an overflow that goes unnoticed in its own
        // run would damage the heap for the runs that follow in the same worker
        let real = if active {
            Layout::from_size_align_unchecked(layout.size() + CANARY_LEN, layout.align())
        } else {
            layout
        };
        let mut p: *mut u8 = std::ptr::null_mut();
        if lib && REUSE.load(Ordering::Relaxed) {
            let _g = lock();
            #[allow(static_mut_refs)]
            let list = &mut REUSE_LISTS[bucket(layout.size(), layout.align())];
            // reuse a freed block of exactly this size in two cases out of three, and then a random one
            // of those waiting: which of several same-sized blocks comes back, and whether a block and
            // its companion (a chunk and its arena header, say) both come back, then varies per run
            let r = reuse_rand();
            if r % 3 != 0 {
                let start = (r >> 8) as usize % REUSE_DEPTH;
                for d in 0..REUSE_DEPTH {
                    let k = (start + d) % REUSE_DEPTH;
                    if list[k].0 != 0 && list[k].1 == layout.size() && list[k].2 == layout.align() {
                        p = list[k].0 as *mut u8;
                        list[k] = (0, 0, 0);
                        crate::trace::bump(crate::trace::C::heap_blocks_reused);
                        break;
                    }
                }
            }
        }
        if p.is_null() {
            p = System.alloc(real);
        }
        if p.is_null() {
            return p;
        }
        let mut flags = 0;
        if active {
            std::ptr::write_bytes(p.add(layout.size()), CANARY, CANARY_LEN);
            flags = F_CANARY;
        }
        if lib {
            flags |= F_LIB;
            LIB_LIVE.fetch_add(1, Ordering::Relaxed);
            LIB_ALLOCS.fetch_add(1, Ordering::Relaxed);
        }
        let _g = lock();
        let l = ledger();
        // the block may still be known as quarantined?  no: quarantined blocks are not returned
        // to System until drained, so System cannot hand them out.
        l.insert(Entry {
            ptr: p as usize,
            size: layout.size(),
            align: layout.align() as u32,
            run: RUN_ID.load(Ordering::Relaxed),
            flags,
        });
        p
    }

    unsafe fn dealloc(&self, ptr: *mut u8, layout: Layout) {
        if !ENABLED.load(Ordering::Relaxed) {
            return System.dealloc(ptr, layout);
        }
        let g = lock();
        let l = ledger();
        let Some(i) = l.find(ptr as usize) else {
            drop(g);
            set_violation("heap/invalid-free (pointer not allocated)", ptr as usize, 0, 0, layout.size(), layout.align());
            return; // do not free
        };
        let e = *l.table.add(i);
        if e.flags & F_QUAR != 0 {
            drop(g);
            set_violation("heap/double-free", ptr as usize, e.size, e.align as usize, layout.size(), layout.align());
            return;
        }
        if e.size != layout.size() || e.align as usize != layout.align() {
            set_violation("heap/wrong-layout-free", ptr as usize, e.size, e.align as usize, layout.size(), layout.align());
            // carry on with the real layout
        }
        let has_canary = e.flags & F_CANARY != 0;
        if has_canary {
            let c = std::slice::from_raw_parts(ptr.add(e.size), CANARY_LEN);
            if c.iter().any(|&b| b != CANARY) {
                set_violation("heap/overflow (bytes written past the end of a block)", ptr as usize, e.size, e.align as usize, 0, 0);
            }
        }
        let real_size = e.size + if has_canary { CANARY_LEN } else { 0 };
        let real = Layout::from_size_align_unchecked(real_size, e.align as usize);
        if e.flags & F_LIB != 0 {
            LIB_FREES.fetch_add(1, Ordering::Relaxed);
            if e.run == RUN_ID.load(Ordering::Relaxed) {
                LIB_LIVE.fetch_sub(1, Ordering::Relaxed);
            }
        }
        if RUN_ACTIVE.load(Ordering::Relaxed) && e.flags & F_LIB != 0 && REUSE.load(Ordering::Relaxed) && has_canary {
            // keep for immediate reuse by the next allocation of the same size (any thread)
            #[allow(static_mut_refs)]
            let list = &mut REUSE_LISTS[bucket(e.size, e.align as usize)];
            if let Some(k) = (0..REUSE_DEPTH).find(|&k| list[k].0 == 0) {
                list[k] = (ptr as usize, e.size, e.align as usize);
                l.remove_at(i);
                drop(g);
                std::ptr::write_bytes(ptr, POISON, e.size);
                return;
            }
        }
        let quarantine = RUN_ACTIVE.load(Ordering::Relaxed)
            && e.flags & F_LIB != 0
            && !REUSE.load(Ordering::Relaxed)
            && l.quar_len < QUARANTINE_CAP
            && l.quar_bytes + real_size <= QUARANTINE_MAX_BYTES;
        if quarantine {
            std::ptr::write_bytes(ptr, POISON, real_size);
            (*l.table.add(i)).flags |= F_QUAR;
            *l.quar.add(l.quar_len) = ptr as usize;
            l.quar_len += 1;
            l.quar_bytes += real_size;
            drop(g);
        } else {
            l.remove_at(i);
            drop(g);
            if e.flags & F_LIB != 0 {
                std::ptr::write_bytes(ptr, POISON, real_size.min(4096));
            }
            System.dealloc(ptr, real);
        }
    }
}

/// Run `f` in library scope: allocations it makes are attributed to the library under test.
#[inline]
pub fn lib<R>(f: impl FnOnce() -> R) -> R {
    struct Restore(bool);
    impl Drop for Restore {
        fn drop(&mut self) {
            let _ = LIB.try_with(|c| c.set(self.0));
        }
    }
    let prev = LIB.with(|c| c.replace(true));
    let _r = Restore(prev);
    f()
}

/// Run `f` in harness scope (used by hooks and harness callbacks invoked from library code).
#[inline]
pub fn harness<R>(f: impl FnOnce() -> R) -> R {
    struct Restore(bool);
    impl Drop for Restore {
        fn drop(&mut self) {
            let _ = LIB.try_with(|c| c.set(self.0));
        }
    }
    let prev = LIB.try_with(|c| c.replace(false)).unwrap_or(false);
    let _r = Restore(prev);
    f()
}

pub fn in_lib() -> bool {
    LIB.try_with(|c| c.get()).unwrap_or(false)
}

pub fn run_begin() {
    RUN_ID.fetch_add(1, Ordering::SeqCst);
    LIB_LIVE.store(0, Ordering::SeqCst);
    VIOL_SET.store(false, Ordering::SeqCst);
    RUN_ACTIVE.store(true, Ordering::SeqCst);
}

pub struct RunEnd {
    /// library-scope blocks allocated in this run and still live
    pub leaked_blocks: usize,
    pub leaked_bytes: usize,
    /// a quarantined block was written after being freed
    pub write_after_free: bool,
    pub quarantined: usize,
}

/// End of a run: drains the quarantine (checking the poison) and reports leaks.
pub fn run_end() -> RunEnd {
    RUN_ACTIVE.store(false, Ordering::SeqCst);
    // blocks waiting for reuse go back to the system
    {
        let _g = lock();
        #[allow(static_mut_refs)]
        unsafe {
            for b in REUSE_LISTS.iter_mut() {
                for e in b.iter_mut() {
                    if e.0 != 0 {
                        System.dealloc(e.0 as *mut u8, Layout::from_size_align_unchecked(e.1 + CANARY_LEN, e.2));
                        *e = (0, 0, 0);
                    }
                }
            }
        }
    }
    REUSE.store(false, Ordering::SeqCst);
    if cfg!(miri) {
        return RunEnd { leaked_blocks: 0, leaked_bytes: 0, write_after_free: false, quarantined: 0 };
    }
    let mut waf = false;
    let quarantined;
    // drain the quarantine
    let mut batch: [usize; 256] = [0; 256];
    let mut total = 0usize;
    loop {
        let mut n = 0;
        let mut layouts: [(usize, usize); 256] = [(0, 0); 256];
        {
            let _g = lock();
            let l = unsafe { ledger() };
            while n < 256 && l.quar_len > 0 {
                l.quar_len -= 1;
                let p = unsafe { *l.quar.add(l.quar_len) };
                let i = unsafe { l.find(p) }.expect("quarantined block in ledger");
                let e = unsafe { *l.table.add(i) };
                let real = e.size + if e.flags & F_CANARY != 0 { CANARY_LEN } else { 0 };
                unsafe { l.remove_at(i) };
                batch[n] = p;
                layouts[n] = (real, e.align as usize);
                n += 1;
            }
            if l.quar_len == 0 {
                l.quar_bytes = 0;
            }
        }
        for k in 0..n {
            let (size, align) = layouts[k];
            let s = unsafe { std::slice::from_raw_parts(batch[k] as *const u8, size) };
            if s.iter().any(|&b| b != POISON) {
                waf = true;
            }
            unsafe { System.dealloc(batch[k] as *mut u8, Layout::from_size_align_unchecked(size, align)) };
        }
        total += n;
        if n < 256 {
            break;
        }
    }
    quarantined = total;
    let live = LIB_LIVE.load(Ordering::SeqCst);
    let mut bytes = 0;
    if live != 0 {
        let run = RUN_ID.load(Ordering::SeqCst);
        let _g = lock();
        let l = unsafe { ledger() };
        for i in 0..TABLE_CAP {
            let e = unsafe { &*l.table.add(i) };
            if e.ptr != 0 && e.run == run && e.flags & F_LIB != 0 && e.flags & F_QUAR == 0 {
                bytes += e.size;
            }
        }
    }
    RunEnd {
        leaked_blocks: live,
        leaked_bytes: bytes,
        write_after_free: waf,
        quarantined,
    }
}

/// sizes of the library-scope blocks of this run that are still live (diagnostics)
pub fn leaked_sizes(max: usize) -> Vec<(usize, usize)> {
    let run = RUN_ID.load(Ordering::SeqCst);
    let mut tmp: [(usize, usize); 64] = [(0, 0); 64];
    let mut n = 0;
    {
        let _g = lock();
        let l = unsafe { ledger() };
        for i in 0..TABLE_CAP {
            let e = unsafe { &*l.table.add(i) };
            if e.ptr != 0 && e.run == run && e.flags & F_LIB != 0 && e.flags & F_QUAR == 0 && n < 64 && n < max {
                tmp[n] = (e.size, e.align as usize);
                n += 1;
            }
        }
    }
    tmp[..n].to_vec()
}

/// live blocks known to the ledger (harness + library)
pub fn ledger_used() -> usize {
    let _g = lock();
    unsafe { ledger().used }
}

pub fn lib_alloc_counts() -> (u64, u64) {
    (LIB_ALLOCS.load(Ordering::Relaxed), LIB_FREES.load(Ordering::Relaxed))
}

/// Is `p` the start of a block that is currently quarantined (freed in this run)?
pub fn is_quarantined(p: usize) -> bool {
    let _g = lock();
    let l = unsafe { ledger() };
    match unsafe { l.find(p) } {
        Some(i) => unsafe { (*l.table.add(i)).flags & F_QUAR != 0 },
        None => false,
    }
}
