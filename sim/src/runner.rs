//! Executing one run, the worker loop, replay files and the minimiser.

use std::cell::RefCell;
use std::collections::HashSet;
use std::io::{BufRead, BufReader, Write};
use std::panic::{catch_unwind, AssertUnwindSafe};
use std::process::{Child, ChildStdin, ChildStdout, Command, Stdio};
use std::sync::atomic::{AtomicI64, Ordering};
use std::time::Instant;

use serde::{Deserialize, Serialize};

use crate::trace::{self, C};
use crate::{choice, heap, sched};

#[derive(Debug, Clone, Serialize, Deserialize)]
pub struct Violation {
    pub class: String,
    pub detail: String,
}

impl Violation {
    pub fn new(class: impl Into<String>, detail: impl Into<String>) -> Self {
        // details may quote text read from freed (poisoned) memory: keep them valid UTF-8
        let d: String = detail.into();
        let d = String::from_utf8_lossy(d.as_bytes()).into_owned();
        Violation { class: class.into(), detail: d }
    }
}

pub type SimResult = Result<(), Violation>;

pub struct SimDef {
    pub name: &'static str,
    pub prop: &'static str,
    pub run: fn() -> SimResult,
    pub about: &'static str,
    /// fault enumeration (thorough tier): all variants of a base run's choices to execute as well
    pub enumerate: Option<fn(&[u32]) -> Vec<Vec<u32>>>,
}

pub static CURRENT_RUN: AtomicI64 = AtomicI64::new(-1);

thread_local! {
    static LAST_PANIC: RefCell<Option<(String, String)>> = const { RefCell::new(None) };
}

pub fn install_panic_hook() {
    std::panic::set_hook(Box::new(|info| {
        heap::harness(|| {
            let loc = info
                .location()
                .map(|l| {
                    let f = l.file();
                    let f = f.strip_prefix("/repo/").unwrap_or(f);
                    format!("{}:{}", f, l.line())
                })
                .unwrap_or_else(|| "?".into());
            let p = info.payload();
            let msg = if let Some(s) = p.downcast_ref::<&str>() {
                s.to_string()
            } else if let Some(s) = p.downcast_ref::<String>() {
                s.clone()
            } else {
                String::new()
            };
            LAST_PANIC.with(|l| *l.borrow_mut() = Some((loc, msg)));
        })
    }));
}

pub fn take_last_panic() -> Option<(String, String)> {
    LAST_PANIC.with(|l| l.borrow_mut().take())
}

/// Outcome of a library call that panicked.
pub struct Panicked {
    pub location: String,
    pub message: String,
}

fn heap_check() -> Result<(), Violation> {
    if let Some(h) = heap::take_violation() {
        let class = h.split(' ').next().unwrap_or("heap").to_string();
        return Err(Violation::new(class, h));
    }
    Ok(())
}

/// Call into the library: library allocation scope, per-call progress counter, panics turned
/// into violations, heap violations checked right after.
pub fn libcall<R>(what: &str, f: impl FnOnce() -> R) -> Result<R, Violation> {
    match libcall_may_panic(f)? {
        Ok(r) => Ok(r),
        Err(p) => Err(Violation::new(
            format!("panic@{}", p.location),
            format!("{} panicked: {}", what, p.message),
        )),
    }
}

/// Like `libcall`, but a panic is handed back to the caller (for documented panics).
pub fn libcall_may_panic<R>(f: impl FnOnce() -> R) -> Result<Result<R, Panicked>, Violation> {
    sched::call_begin();
    let r = heap::lib(|| catch_unwind(AssertUnwindSafe(f)));
    match r {
        Ok(v) => {
            heap_check()?;
            Ok(Ok(v))
        }
        Err(e) => {
            if e.is::<sched::NoProgress>() {
                return Err(Violation::new("no-progress", format!("a library call passed more than {} yield points without returning", sched::CALL_YIELD_CAP)));
            }
            if e.is::<sched::StepCapExceeded>() {
                return Err(Violation::new("harness/step-cap", "whole-run step cap exceeded"));
            }
            let (location, message) = take_last_panic().unwrap_or(("?".into(), "?".into()));
            heap_check()?;
            Ok(Err(Panicked { location, message }))
        }
    }
}

/// payload of the panic injected by `drop_unwinding`
pub struct InjectedUnwind;

/// Fault injection "the owner dies": the value is dropped while its thread unwinds from a panic that the thread
/// survives (as under `catch_unwind`, or in a panicking thread that is joined). A drop is a drop: every release
/// protocol must come out the same.
pub fn drop_unwinding<T>(v: T) -> Result<(), Violation> {
    libcall("drop while unwinding from an injected panic", move || {
        let r = catch_unwind(AssertUnwindSafe(move || {
            let _held = v;
            std::panic::panic_any(InjectedUnwind);
        }));
        drop(r);
    })?;
    let _ = take_last_panic();
    Ok(())
}

pub enum Source<'a> {
    Seeded(u64),
    Replay(&'a [u32]),
}

pub struct RunResult {
    pub violation: Option<Violation>,
    pub choices: Vec<u32>,
    pub trace: trace::Summary,
}

fn execute_once(sim: &SimDef, src: Source, record: bool) -> (RunResult, bool) {
    sched::reset_run_state();
    match src {
        Source::Seeded(s) => choice::begin_seeded(s),
        Source::Replay(c) => choice::begin_replay(c),
    }
    trace::begin(record);
    heap::run_begin();
    let _ = take_last_panic();
    let r = catch_unwind(AssertUnwindSafe(|| (sim.run)()));
    let mut viol = match r {
        Ok(Ok(())) => None,
        Ok(Err(v)) => Some(v),
        Err(_) => {
            let (loc, msg) = take_last_panic().unwrap_or(("?".into(), "?".into()));
            Some(Violation::new("harness/panic", format!("harness panicked at {}: {}", loc, msg)))
        }
    };
    let end = heap::run_end();
    if viol.is_none() {
        if let Err(v) = heap_check() {
            viol = Some(v);
        }
    } else {
        let _ = heap::take_violation();
    }
    if viol.is_none() && end.write_after_free {
        viol = Some(Violation::new("heap/write-after-free", "a freed block was modified before the end of the run"));
    }
    let leak = viol.is_none() && end.leaked_blocks > 0;
    if leak {
        let sizes = heap::leaked_sizes(8);
        viol = Some(Violation::new(
            "heap/leak",
            format!("{} block(s), {} bytes allocated by the library during the run are still live after everything was dropped; first sizes/aligns: {:?}", end.leaked_blocks, end.leaked_bytes, sizes),
        ));
    }
    let choices = choice::log();
    let trace = trace::end();
    (RunResult { violation: viol, choices, trace }, leak)
}

/// Execute one run. A suspected leak is only reported if re-executing the same choices leaks
/// again (one-time initialisations and growth of thread-local buffers do not recur).
pub fn execute(sim: &SimDef, src: Source, record: bool) -> RunResult {
    let (r, leak) = execute_once(sim, src, record);
    if !leak {
        return r;
    }
    trace::bump(C::heap_leak_reexec);
    let (r2, leak2) = execute_once(sim, Source::Replay(&r.choices), record);
    if leak2 {
        return r2;
    }
    // the second execution is the authoritative one
    r2
}

// ------------------------------------------------------------------------------------------
// replay files

#[derive(Debug, Clone, Serialize, Deserialize)]
pub struct ReplayFile {
    pub property: String,
    pub sim: String,
    pub config: String,
    pub seed: u64,
    pub run: i64,
    pub engine: String,
    pub choices: Vec<u32>,
    pub violation: Violation,
    #[serde(default)]
    pub rendered: Vec<String>,
    #[serde(default)]
    pub minimised: bool,
    #[serde(default)]
    pub original_len: usize,
    /// engine "miri": the -Zmiri-seed value and the scenarios-per-process count to replay with
    #[serde(default)]
    pub miri_seed: Option<u64>,
    #[serde(default)]
    pub miri_count: Option<u64>,
}

impl ReplayFile {
    pub fn load(path: &str) -> Result<Self, String> {
        let s = std::fs::read_to_string(path).map_err(|e| format!("{}: {}", path, e))?;
        serde_json::from_str(&s).map_err(|e| format!("{}: {}", path, e))
    }
    pub fn save(&self, path: &str) -> Result<(), String> {
        let s = serde_json::to_string_pretty(self).map_err(|e| e.to_string())?;
        std::fs::write(path, s).map_err(|e| format!("{}: {}", path, e))
    }
}

// ------------------------------------------------------------------------------------------
// worker

#[derive(Debug, Clone, Serialize, Deserialize)]
pub struct FoundViolation {
    pub run: i64,
    pub class: String,
    pub detail: String,
    pub choices: Vec<u32>,
}

#[derive(Debug, Clone, Serialize, Deserialize)]
pub struct Sample {
    pub run: i64,
    pub config: String,
    pub lines: Vec<String>,
}

#[derive(Debug, Clone, Serialize, Deserialize, Default)]
pub struct WorkerResult {
    pub sim: String,
    pub config: String,
    pub seed: u64,
    pub from: u64,
    pub done: u64,
    pub wall_s: f64,
    pub nontrivial_runs: u64,
    pub counters: Vec<(String, u64)>,
    pub violations: Vec<FoundViolation>,
    pub samples: Vec<Sample>,
    pub hashes_file: String,
    pub sched_hashes_file: String,
    pub choices_drawn: u64,
    pub stopped_early: bool,
    #[serde(default)]
    pub enumerated_bases: u64,
    #[serde(default)]
    pub enumerated_variants: u64,
    /// live heap blocks (harness + library) after the warm-up and at the end: a steady growth would be a harness leak
    #[serde(default)]
    pub ledger_used_start: u64,
    #[serde(default)]
    pub ledger_used_end: u64,
}

fn write_hashes(path: &str, set: &HashSet<u64>) {
    let mut v: Vec<u8> = Vec::with_capacity(set.len() * 8);
    for h in set {
        v.extend_from_slice(&h.to_le_bytes());
    }
    let _ = std::fs::write(path, v);
}

pub fn read_hashes(path: &str, into: &mut HashSet<u64>) {
    if let Ok(b) = std::fs::read(path) {
        for c in b.chunks_exact(8) {
            into.insert(u64::from_le_bytes(c.try_into().unwrap()));
        }
    }
}

pub struct WorkerArgs {
    pub sim: &'static SimDef,
    pub config: String,
    pub seed: u64,
    pub from: u64,
    pub count: u64,
    pub out: String,
    pub max_secs: f64,
    pub max_violations: usize,
    /// determinism self-test: one line per run (run index, trace hash, choice count, class)
    pub hash_log: Option<String>,
    /// execute the sim's fault enumeration after every base run
    pub enumerate: bool,
}

pub fn worker(a: WorkerArgs) -> i32 {
    let t0 = Instant::now();
    let mut hashes: HashSet<u64> = HashSet::new();
    let mut sched_hashes: HashSet<u64> = HashSet::new();
    let mut res = WorkerResult { sim: a.sim.name.into(), config: a.config.clone(), seed: a.seed, from: a.from, ..Default::default() };
    // warm-up: one-time initialisations happen outside accounting
    let _ = execute(a.sim, Source::Seeded(choice::run_seed(a.seed, a.sim.name, u64::MAX)), false);
    let warm = trace::snapshot();
    res.ledger_used_start = heap::ledger_used() as u64;
    let mut classes_seen: HashSet<String> = HashSet::new();
    let mut hash_log = a.hash_log.as_ref().map(|p| std::io::BufWriter::new(std::fs::File::create(p).expect("hash log")));
    for i in 0..a.count {
        let run = a.from + i;
        CURRENT_RUN.store(run as i64, Ordering::SeqCst);
        let r = execute(a.sim, Source::Seeded(choice::run_seed(a.seed, a.sim.name, run)), false);
        res.done += 1;
        res.choices_drawn += r.choices.len() as u64;
        if r.trace.nontrivial {
            res.nontrivial_runs += 1;
            hashes.insert(r.trace.hash);
        }
        sched_hashes.insert(r.trace.sched_hash);
        if let Some(w) = hash_log.as_mut() {
            let _ = writeln!(w, "{} {:016x} {:016x} {} {}", run, r.trace.hash, r.trace.sched_hash, r.choices.len(), r.violation.as_ref().map(|v| v.class.as_str()).unwrap_or("-"));
        }
        if r.trace.nontrivial && res.samples.len() < 2 && r.violation.is_none() && (i % 97 == 3 || i > 500) {
            let rr = execute(a.sim, Source::Replay(&r.choices), true);
            if rr.trace.hash == r.trace.hash {
                res.samples.push(Sample { run: run as i64, config: a.config.clone(), lines: rr.trace.lines });
            } else {
                res.violations.push(FoundViolation {
                    run: run as i64,
                    class: "harness/nondeterminism".into(),
                    detail: "re-executing the recorded choices gave a different trace".into(),
                    choices: r.choices.clone(),
                });
            }
        }
        if a.enumerate && r.violation.is_none() {
            if let Some(en) = a.sim.enumerate {
                let variants = en(&r.choices);
                res.enumerated_bases += 1;
                for var in variants {
                    let rv = execute(a.sim, Source::Replay(&var), false);
                    res.done += 1;
                    res.enumerated_variants += 1;
                    if rv.trace.nontrivial {
                        res.nontrivial_runs += 1;
                        hashes.insert(rv.trace.hash);
                    }
                    if let Some(v) = rv.violation {
                        if classes_seen.insert(v.class.clone()) || res.violations.len() < 2 {
                            res.violations.push(FoundViolation { run: run as i64, class: v.class, detail: v.detail, choices: rv.choices });
                        }
                        break;
                    }
                }
            }
        }
        if let Some(v) = r.violation {
            // once the heap has been damaged (overflow, write after free, bad free) nothing this process
            // does afterwards can be trusted: report and stop, later runs would only show symptoms
            let heap_damaged = v.class.starts_with("heap/") && !v.class.starts_with("heap/leak");
            if classes_seen.insert(v.class.clone()) || res.violations.len() < 2 {
                res.violations.push(FoundViolation { run: run as i64, class: v.class, detail: v.detail, choices: r.choices });
            }
            if heap_damaged {
                res.stopped_early = true;
                break;
            }
            if res.violations.len() >= a.max_violations {
                res.stopped_early = true;
                break;
            }
        }
        if i % 64 == 0 && t0.elapsed().as_secs_f64() > a.max_secs {
            res.stopped_early = true;
            break;
        }
    }
    CURRENT_RUN.store(-1, Ordering::SeqCst);
    res.ledger_used_end = heap::ledger_used() as u64;
    res.wall_s = t0.elapsed().as_secs_f64();
    let snap = trace::snapshot();
    res.counters = snap
        .iter()
        .zip(warm.iter())
        .map(|((n, v), (_, w))| (n.to_string(), v - w))
        .collect();
    res.hashes_file = format!("{}.hashes", a.out);
    res.sched_hashes_file = format!("{}.sched", a.out);
    write_hashes(&res.hashes_file, &hashes);
    write_hashes(&res.sched_hashes_file, &sched_hashes);
    let s = serde_json::to_string(&res).unwrap();
    if let Err(e) = std::fs::write(&a.out, s) {
        eprintln!("worker: cannot write {}: {}", a.out, e);
        return 2;
    }
    0
}

// ------------------------------------------------------------------------------------------
// exec server: executes candidate choice lists given on stdin, one per line
// protocol: parent writes "<n1> <n2> ...\n" ; child answers
//   "RESULT <class or -> | <effective choices>\n"
// a crash prints "CRASH sig=<n>" (from the signal handler) and ends the process.

pub fn exec_server(sim: &'static SimDef) -> i32 {
    let stdin = std::io::stdin();
    let mut out = std::io::stdout();
    for line in stdin.lock().lines() {
        let Ok(line) = line else { break };
        let line = line.trim();
        if line == "quit" {
            break;
        }
        let choices: Vec<u32> = line.split_whitespace().filter_map(|x| x.parse().ok()).collect();
        CURRENT_RUN.store(0, Ordering::SeqCst);
        let r = execute(sim, Source::Replay(&choices), false);
        let class = r.violation.as_ref().map(|v| v.class.clone()).unwrap_or_else(|| "-".into());
        let eff: Vec<String> = r.choices.iter().map(|c| c.to_string()).collect();
        let _ = writeln!(out, "RESULT {} | {}", class.replace(' ', "_"), eff.join(" "));
        let _ = out.flush();
    }
    0
}

pub struct ExecClient {
    exe: String,
    sim: String,
    child: Option<(Child, ChildStdin, BufReader<ChildStdout>)>,
    pub executions: u64,
}

impl ExecClient {
    pub fn new(exe: &str, sim: &str) -> Self {
        ExecClient { exe: exe.into(), sim: sim.into(), child: None, executions: 0 }
    }

    fn ensure(&mut self) {
        if self.child.is_none() {
            let mut c = Command::new(&self.exe)
                .args(["exec-server", "--sim", &self.sim])
                .stdin(Stdio::piped())
                .stdout(Stdio::piped())
                .stderr(Stdio::null())
                .spawn()
                .expect("spawn exec server");
            let i = c.stdin.take().unwrap();
            let o = BufReader::new(c.stdout.take().unwrap());
            self.child = Some((c, i, o));
        }
    }

    /// returns (violation class if any, effective choices)
    pub fn run(&mut self, choices: &[u32]) -> (Option<String>, Vec<u32>) {
        self.executions += 1;
        self.ensure();
        let line: Vec<String> = choices.iter().map(|c| c.to_string()).collect();
        let (_, i, o) = self.child.as_mut().unwrap();
        let wrote = writeln!(i, "{}", line.join(" ")).and_then(|_| i.flush());
        let mut crash: Option<String> = None;
        if wrote.is_ok() {
            loop {
                let mut resp = String::new();
                match o.read_line(&mut resp) {
                    Ok(0) | Err(_) => break,
                    Ok(_) => {
                        let resp = resp.trim();
                        if let Some(rest) = resp.strip_prefix("RESULT ") {
                            let (class, eff) = rest.split_once('|').unwrap_or((rest, ""));
                            let class = class.trim();
                            let eff: Vec<u32> = eff.split_whitespace().filter_map(|x| x.parse().ok()).collect();
                            return (if class == "-" { None } else { Some(class.to_string()) }, eff);
                        }
                        if let Some(rest) = resp.strip_prefix("CRASH ") {
                            let sig = rest.split("sig=").nth(1).unwrap_or("?").trim();
                            crash = Some(format!("crash/signal-{}", sig));
                        }
                    }
                }
            }
        }
        // the child died
        if let Some((mut c, _, _)) = self.child.take() {
            let st = c.wait().ok();
            if crash.is_none() {
                crash = Some(match st.and_then(|s| std::os::unix::process::ExitStatusExt::signal(&s)) {
                    Some(sig) => format!("crash/signal-{}", sig),
                    None => "crash/exit".to_string(),
                });
            }
        }
        (crash, choices.to_vec())
    }
}

impl Drop for ExecClient {
    fn drop(&mut self) {
        if let Some((mut c, mut i, _)) = self.child.take() {
            let _ = writeln!(i, "quit");
            drop(i);
            let _ = c.wait();
        }
    }
}

/// Two violation classes count as the same failure if they are equal, or if both belong to the
/// memory-safety family (a crash by any signal, or a finding of the simulated heap): what memory
/// corruption does to a process depends on the heap layout of the process it happens in (SIGSEGV in a
/// long-running worker, SIGABRT from the allocator or a clean `heap/overflow` report in a fresh one).
pub fn same_class(a: &str, b: &str) -> bool {
    let mem = |c: &str| c.starts_with("crash/") || c.starts_with("heap/");
    a == b || (mem(a) && mem(b))
}

/// Hypothesis-style minimisation of a choice list: delete chunks, zero entries, lower entries,
/// accepting a candidate iff the same violation class recurs.
pub fn minimise(ex: &mut ExecClient, start: &[u32], class: &str, max_execs: u64, max_secs: f64) -> Vec<u32> {
    let t0 = Instant::now();
    let class = class.replace(' ', "_");
    let mut best: Vec<u32> = start.to_vec();
    let budget_ok = |ex: &ExecClient| ex.executions < max_execs && t0.elapsed().as_secs_f64() < max_secs;
    let mut try_candidate = |ex: &mut ExecClient, cand: &[u32], best: &mut Vec<u32>| -> bool {
        let (c, eff) = ex.run(cand);
        if c.as_deref().map(|c| same_class(c, &class)).unwrap_or(false) {
            // prefer the effective list when it is not longer
            let newb = if !eff.is_empty() && eff.len() <= cand.len() { eff } else { cand.to_vec() };
            let better = newb.len() < best.len() || (newb.len() == best.len() && newb.iter().map(|&x| x as u64).sum::<u64>() < best.iter().map(|&x| x as u64).sum::<u64>());
            if better {
                *best = newb;
                return true;
            }
        }
        false
    };
    // normalise first
    {
        let b = best.clone();
        try_candidate(ex, &b, &mut best);
    }
    let mut progress = true;
    while progress && budget_ok(ex) {
        progress = false;
        // 1. delete chunks
        let mut size = (best.len() / 2).max(1);
        while size >= 1 && budget_ok(ex) {
            let mut i = 0;
            while i + size <= best.len() && budget_ok(ex) {
                let mut cand = best.clone();
                cand.drain(i..i + size);
                if try_candidate(ex, &cand, &mut best) {
                    progress = true;
                } else {
                    i += size;
                }
            }
            if size == 1 {
                break;
            }
            size /= 2;
        }
        // 2. zero entries (blocks first)
        let mut size = 8usize;
        while size >= 1 && budget_ok(ex) {
            let mut i = 0;
            while i < best.len() && budget_ok(ex) {
                let end = (i + size).min(best.len());
                if best[i..end].iter().any(|&x| x != 0) {
                    let mut cand = best.clone();
                    for x in &mut cand[i..end] {
                        *x = 0;
                    }
                    if try_candidate(ex, &cand, &mut best) {
                        progress = true;
                    }
                }
                i += size;
            }
            if size == 1 {
                break;
            }
            size /= 2;
        }
        // 3. lower entries
        let mut i = 0;
        while i < best.len() && budget_ok(ex) {
            let v = best[i];
            if v > 1 {
                for nv in [v / 2, v - 1] {
                    if i >= best.len() {
                        break;
                    }
                    let mut cand = best.clone();
                    cand[i] = nv;
                    if try_candidate(ex, &cand, &mut best) {
                        progress = true;
                        break;
                    }
                }
            } else if v == 1 {
                // already tried zeroing
            }
            i += 1;
        }
    }
    // past-the-end draws are 0, so trailing zeros carry no information
    let mut cand = best.clone();
    while cand.last() == Some(&0) {
        cand.pop();
    }
    if cand.len() < best.len() {
        let (c, _) = ex.run(&cand);
        if c.as_deref().map(|c| same_class(c, &class)).unwrap_or(false) {
            best = cand;
        }
    }
    best
}
