//! Baton scheduler: every simulated caller thread is a real OS thread (so it has its real
//! thread-local node buffer and real TLS destructors), but exactly one of them runs at any
//! time. At every yield point the running thread asks the choice stream who goes next.
//! Also owns the hook table installed into sonic-rs (`--cfg sonic_rs_verif`).

use std::cell::Cell;
use std::panic::{catch_unwind, AssertUnwindSafe};
use std::sync::atomic::{AtomicBool, AtomicI64, AtomicU32, AtomicU64, Ordering};
use std::sync::{Arc, Condvar, Mutex};

use crate::choice;
use crate::trace::{self, C};

pub const STEP_CAP: u64 = 20_000;
pub const CALL_YIELD_CAP: u32 = 64;

struct St {
    current: Option<usize>,
    alive: Vec<bool>,
    done: usize,
    steps: u64,
    switch_weight: u32,
    /// PCT-style strategy (Burckhardt et al.): fixed random priorities, the highest-priority
    /// runnable thread runs, and at d drawn change points the running thread drops to the lowest
    /// priority. None = uniform random choice at every yield point.
    pct: Option<Pct>,
}

struct Pct {
    prio: Vec<i64>,
    change_points: Vec<u64>,
}

impl St {
    fn pct_pick(&self) -> Option<usize> {
        let p = self.pct.as_ref()?;
        (0..self.alive.len()).filter(|&i| self.alive[i]).max_by_key(|&i| p.prio[i])
    }
}

static STEP_HINT: AtomicU64 = AtomicU64::new(48);

/// how many yield points a run of this sim typically has (used to place PCT change points)
pub fn set_step_hint(n: u64) {
    STEP_HINT.store(n.max(4), Ordering::SeqCst);
}

struct Shared {
    m: Mutex<St>,
    cv: Condvar,
}

static CURRENT: Mutex<Option<Arc<Shared>>> = Mutex::new(None);
/// false = free-running mode (threads are not serialised; used under Miri)
static BATON: AtomicBool = AtomicBool::new(true);

thread_local! {
    static ME: Cell<Option<usize>> = const { Cell::new(None) };
    static CALL_YIELDS: Cell<u32> = const { Cell::new(0) };
    static SPURIOUS_IN_A_ROW: Cell<[u8; 64]> = const { Cell::new([0; 64]) };
}

pub fn set_baton(on: bool) {
    BATON.store(on, Ordering::SeqCst);
}
pub fn baton() -> bool {
    BATON.load(Ordering::Relaxed)
}

/// id of the simulated thread we are on (None on the driver)
pub fn me() -> Option<usize> {
    ME.with(|m| m.get())
}

pub struct NoProgress;
pub struct StepCapExceeded;

/// Reset the per-call yield counter; call before every library call made by a simulated thread.
#[inline]
pub fn call_begin() {
    CALL_YIELDS.with(|c| c.set(0));
}

fn shared() -> Option<Arc<Shared>> {
    CURRENT.lock().unwrap_or_else(|e| e.into_inner()).clone()
}

pub fn yield_point(site: u16) {
    let Some(me) = me() else { return };
    if !baton() {
        return;
    }
    if std::thread::panicking() {
        // unwinding (e.g. out of a no-progress panic): never schedule or panic from destructors
        return;
    }
    crate::heap::harness(|| {
        // bounded liveness applies to the lock-free cache operations only (sites 0..31): a DOM call
        // legitimately passes one yield point per node it clones or drops
        if site < 32 {
            let n = CALL_YIELDS.with(|c| {
                let v = c.get() + 1;
                c.set(v);
                v
            });
            if n > CALL_YIELD_CAP {
                std::panic::panic_any(NoProgress);
            }
        }
        let Some(sh) = shared() else { return };
        let mut st = sh.m.lock().unwrap_or_else(|e| e.into_inner());
        st.steps += 1;
        trace::bump(C::sched_steps);
        if st.steps > STEP_CAP {
            drop(st);
            std::panic::panic_any(StepCapExceeded);
        }
        let others: Vec<usize> = (0..st.alive.len()).filter(|&i| st.alive[i] && i != me).collect();
        let mut next = me;
        if st.pct.is_some() {
            let step = st.steps;
            let p = st.pct.as_mut().unwrap();
            if p.change_points.contains(&step) {
                let low = p.prio.iter().copied().min().unwrap_or(0) - 1;
                p.prio[me] = low;
            }
            next = st.pct_pick().unwrap_or(me);
        } else if !others.is_empty() {
            let w = st.switch_weight.max(1);
            let k = choice::draw((others.len() as u32 + 1) * w) as usize;
            if k >= 1 && k <= others.len() {
                next = others[k - 1];
            }
        }
        trace::sched_step(me, site, next != me);
        if next != me {
            trace::bump(C::context_switches);
            trace::nontrivial();
            crate::tr!("  switch T{}->T{} at {}", me, next, site_name(site));
            st.current = Some(next);
            sh.cv.notify_all();
            while st.current != Some(me) {
                st = sh.cv.wait(st).unwrap_or_else(|e| e.into_inner());
            }
        }
    })
}

pub fn site_name(site: u16) -> &'static str {
    match site {
        0 => "lazy.load",
        1 => "lazy.cas",
        2 => "lazy.cas_weak",
        3 => "lazy.after_cas",
        16 => "owned.load",
        17 => "owned.cas",
        18 => "owned.cas_weak",
        19 => "owned.after_cas",
        32 => "arena.inc",
        33 => "arena.dec",
        34 => "value.clone",
        35 => "value.as_mut",
        100 => "op",
        101 => "send",
        102 => "recv",
        103 => "hold",
        _ => "?",
    }
}

pub struct ThreadResult {
    pub panic: Option<String>,
    pub no_progress: bool,
    pub step_cap: bool,
}

fn panic_msg(p: &(dyn std::any::Any + Send)) -> String {
    if let Some(s) = p.downcast_ref::<&str>() {
        s.to_string()
    } else if let Some(s) = p.downcast_ref::<String>() {
        s.clone()
    } else {
        "<non-string panic>".to_string()
    }
}

/// Run the given programs as simulated threads until all have finished.
pub fn run_threads(progs: Vec<Box<dyn FnOnce() + Send + 'static>>) -> Vec<ThreadResult> {
    let n = progs.len();
    trace::add(C::threads_spawned, n as u64);
    if !baton() {
        // free-running (Miri decides the interleaving); every thread gets its own draw stream
        let seeds: Vec<u64> = (0..n).map(|_| ((choice::draw(u32::MAX) as u64) << 32) | choice::draw(u32::MAX) as u64).collect();
        let hs: Vec<_> = progs
            .into_iter()
            .enumerate()
            .map(|(i, p)| {
                let seed = seeds[i];
                std::thread::spawn(move || {
                    ME.with(|m| m.set(Some(i)));
                    choice::set_thread_rng(seed);
                    p()
                })
            })
            .collect();
        return hs
            .into_iter()
            .map(|h| match h.join() {
                Ok(()) => ThreadResult { panic: None, no_progress: false, step_cap: false },
                Err(e) => ThreadResult { panic: Some(panic_msg(&*e)), no_progress: false, step_cap: false },
            })
            .collect();
    }
    // swarm knob: scheduling strategy of this run
    let strat = choice::draw(6);
    let weight = [1u32, 1, 2, 4, 1, 1][strat as usize];
    let pct = if strat >= 4 && n > 1 {
        let d = 1 + choice::draw(3) as usize;
        let hint = STEP_HINT.load(Ordering::SeqCst) as u32;
        // a random permutation as priorities
        let mut prio: Vec<i64> = (0..n as i64).collect();
        for i in (1..n).rev() {
            let j = choice::draw(i as u32 + 1) as usize;
            prio.swap(i, j);
        }
        let change_points = (0..d).map(|_| 1 + choice::draw(hint) as u64).collect();
        Some(Pct { prio, change_points })
    } else {
        None
    };
    let is_pct = pct.is_some();
    let sh = Arc::new(Shared {
        m: Mutex::new(St { current: None, alive: vec![true; n], done: 0, steps: 0, switch_weight: weight, pct }),
        cv: Condvar::new(),
    });
    *CURRENT.lock().unwrap_or_else(|e| e.into_inner()) = Some(sh.clone());
    let results: Arc<Mutex<Vec<Option<ThreadResult>>>> = Arc::new(Mutex::new((0..n).map(|_| None).collect()));
    let mut handles = Vec::new();
    for (i, p) in progs.into_iter().enumerate() {
        let sh = sh.clone();
        let results = results.clone();
        let h = std::thread::Builder::new()
            .stack_size(1 << 20)
            .spawn(move || {
                ME.with(|m| m.set(Some(i)));
                {
                    let mut st = sh.m.lock().unwrap_or_else(|e| e.into_inner());
                    while st.current != Some(i) {
                        st = sh.cv.wait(st).unwrap_or_else(|e| e.into_inner());
                    }
                }
                let r = catch_unwind(AssertUnwindSafe(p));
                let tr = match r {
                    Ok(()) => ThreadResult { panic: None, no_progress: false, step_cap: false },
                    Err(e) => {
                        if e.is::<NoProgress>() {
                            ThreadResult { panic: None, no_progress: true, step_cap: false }
                        } else if e.is::<StepCapExceeded>() {
                            ThreadResult { panic: None, no_progress: false, step_cap: true }
                        } else {
                            ThreadResult { panic: Some(panic_msg(&*e)), no_progress: false, step_cap: false }
                        }
                    }
                };
                results.lock().unwrap_or_else(|e| e.into_inner())[i] = Some(tr);
                // hand the baton on
                let mut st = sh.m.lock().unwrap_or_else(|e| e.into_inner());
                st.alive[i] = false;
                st.done += 1;
                let alive: Vec<usize> = (0..st.alive.len()).filter(|&k| st.alive[k]).collect();
                if alive.is_empty() {
                    st.current = None;
                } else if let Some(nx) = st.pct_pick() {
                    crate::tr!("  T{} done -> T{}", i, nx);
                    st.current = Some(nx);
                } else {
                    let k = if alive.len() > 1 { choice::draw(alive.len() as u32) as usize } else { 0 };
                    crate::tr!("  T{} done -> T{}", i, alive[k]);
                    st.current = Some(alive[k]);
                }
                sh.cv.notify_all();
            })
            .expect("spawn sim thread");
        handles.push(h);
    }
    {
        let mut st = sh.m.lock().unwrap_or_else(|e| e.into_inner());
        let first = if is_pct { st.pct_pick().unwrap_or(0) } else if n > 1 { choice::draw(n as u32) as usize } else { 0 };
        st.current = Some(first);
        sh.cv.notify_all();
        while st.done < n {
            st = sh.cv.wait(st).unwrap_or_else(|e| e.into_inner());
        }
    }
    for h in handles {
        let _ = h.join();
    }
    *CURRENT.lock().unwrap_or_else(|e| e.into_inner()) = None;
    let mut r = results.lock().unwrap_or_else(|e| e.into_inner());
    r.iter_mut().map(|x| x.take().unwrap_or(ThreadResult { panic: Some("thread vanished".into()), no_progress: false, step_cap: false })).collect()
}

// ------------------------------------------------------------------------------------------
// hooks installed into sonic-rs

/// spurious weak-CAS failure rate for this run: fails when draw(den) < num ... (0 = never)
static CAS_NUM: AtomicU32 = AtomicU32::new(0);
static CAS_DEN: AtomicU32 = AtomicU32::new(1);
pub static ARENAS_LIVE: AtomicI64 = AtomicI64::new(0);
pub static ARENAS_CREATED: AtomicU64 = AtomicU64::new(0);
static ARENA_OWNERS: Mutex<Vec<(usize, Option<usize>)>> = Mutex::new(Vec::new());

pub fn set_cas_rate(num: u32, den: u32) {
    CAS_NUM.store(num, Ordering::SeqCst);
    CAS_DEN.store(den.max(1), Ordering::SeqCst);
}

fn hook_sched(site: u16) {
    yield_point(site)
}

fn hook_cas(site: u16) -> bool {
    let num = CAS_NUM.load(Ordering::Relaxed);
    if num == 0 || !baton() {
        return false;
    }
    crate::heap::harness(|| {
        let den = CAS_DEN.load(Ordering::Relaxed);
        let idx = (site as usize) & 63;
        let row = SPURIOUS_IN_A_ROW.with(|c| c.get());
        if row[idx] >= 2 {
            // hardware may fail spuriously, but not forever
            SPURIOUS_IN_A_ROW.with(|c| {
                let mut r = c.get();
                r[idx] = 0;
                c.set(r)
            });
            return false;
        }
        let fail = choice::draw(den) >= den - num;
        SPURIOUS_IN_A_ROW.with(|c| {
            let mut r = c.get();
            r[idx] = if fail { r[idx] + 1 } else { 0 };
            c.set(r)
        });
        if fail {
            trace::bump(C::fault_spurious_cas);
            trace::nontrivial();
            crate::tr!("  T{} {} FAULT spurious-failure", me().map(|m| m as i64).unwrap_or(-1), site_name(site));
        }
        fail
    })
}

fn hook_event(kind: u8, arg: usize) {
    use sonic_rs::verif as v;
    // the shim reports the outcome of a compare-exchange right after it: a scheduling point *behind* the
    // operation, so that whatever the winner (or loser) does next with the published object can interleave
    // with readers that already see it
    if (kind == v::EV_CAS_WON || kind == v::EV_CAS_LOST) && arg < 29 {
        hook_event_inner(kind, arg);
        trace::bump(C::post_cas_yields);
        yield_point(arg as u16 + 3);
        return;
    }
    hook_event_inner(kind, arg)
}

fn hook_event_inner(kind: u8, arg: usize) {
    use sonic_rs::verif as v;
    crate::heap::harness(|| match kind {
        v::EV_ARENA_NEW => {
            ARENAS_LIVE.fetch_add(1, Ordering::SeqCst);
            ARENAS_CREATED.fetch_add(1, Ordering::SeqCst);
            trace::bump(C::arena_created);
            ARENA_OWNERS.lock().unwrap_or_else(|e| e.into_inner()).push((arg, me()));
        }
        v::EV_ARENA_DROP => {
            ARENAS_LIVE.fetch_sub(1, Ordering::SeqCst);
            trace::bump(C::arena_dropped);
            let mut o = ARENA_OWNERS.lock().unwrap_or_else(|e| e.into_inner());
            if let Some(i) = o.iter().position(|x| x.0 == arg) {
                let (_, creator) = o.swap_remove(i);
                if creator != me() {
                    trace::bump(C::arena_freed_on_foreign_thread);
                }
            }
        }
        v::EV_CAS_LOST => {
            trace::bump(C::cas_lost_real_race);
            crate::tr!("  T{} cas lost a real race", me().map(|m| m as i64).unwrap_or(-1));
        }
        v::EV_CAS_WON => trace::bump(C::cas_won),
        v::EV_CAS_SPURIOUS => {}
        v::EV_LOAD_HIT => trace::bump(C::load_hit_published),
        v::EV_TLS_REUSE => trace::bump(C::tls_buffer_reused),
        v::EV_TLS_HEAP_FALLBACK => trace::bump(C::tls_heap_fallback),
        _ => {}
    })
}

static HOOKS: sonic_rs::verif::Hooks = sonic_rs::verif::Hooks {
    sched_point: hook_sched,
    weak_cas_spurious: hook_cas,
    event: hook_event,
};

pub fn install_hooks() {
    sonic_rs::verif::install(Some(&HOOKS));
}

pub fn reset_run_state() {
    set_cas_rate(0, 1);
    ARENA_OWNERS.lock().unwrap_or_else(|e| e.into_inner()).clear();
}
