#!/bin/bash
# usage: seeded_try.sh <patch.diff> <prop> [extra check args]   -- apply to /repo, run the check, undo
set -u
P="$1"; PROP="$2"; shift; shift
cd /repo || exit 2
if ! git diff --quiet; then echo "repo dirty"; exit 2; fi
if ! git apply --3way "$P" 2>/tmp/apply.err; then
  if ! git apply "$P" 2>>/tmp/apply.err; then echo "patch does not apply:"; cat /tmp/apply.err; git checkout HEAD -- . ; exit 2; fi
fi
git status --short | head -5
( cd /verif && ./check "$PROP" quick "$@" 2>&1 | grep -vE "^\s*$" | tail -25 )
rc=$?
git -C /repo checkout HEAD -- .
git -C /repo status --short | head -3
exit $rc
