#!/bin/bash
# Applies every seeded change (/verif/seeded/*/patch.diff) and every revert-mutant
# (/verif/mutants/<prop>-*.diff) to /repo in turn, runs the property's quick check, undoes the change,
# and prints one line per change: caught (exit 1 + VIOLATION) or MISSED. Results: /verif/work/campaign.txt
set -u
REPO="${REPO:-/repo}"
cd "$(dirname "${BASH_SOURCE[0]}")"
VERIF="$(pwd)"
if [ "$REPO" != "/repo" ]; then
  # running from a snapshot against a private copy of the repository: point the simulator at it
  sed -i "s#path = \"/repo\"#path = \"$REPO\"#" sim/Cargo.toml
fi
mkdir -p work
OUT=work/campaign.txt; : > $OUT
# ONLY="C13 C16" restricts the campaign to the changes of those properties
run_one() {
  local name="$1" patch="$2" prop="$3"; shift 3
  if [ -n "${ONLY:-}" ] && ! echo " $ONLY " | grep -q " $prop "; then return; fi
  git -C "$REPO" checkout HEAD -- . 2>/dev/null
  if ! git -C "$REPO" apply "$VERIF/$patch" 2>/dev/null && ! git -C "$REPO" apply --3way "$VERIF/$patch" 2>/dev/null; then echo "$name $prop APPLY-FAILED" | tee -a $OUT; return; fi
  local log=work/campaign-$name.log
  ./check $prop quick "$@" > $log 2>&1; local rc=$?
  git -C "$REPO" checkout HEAD -- .
  local cls=$(grep -A1 "^VIOLATION" $log | grep -o "class=[^ ]*" | sort -u | tr '\n' ' ')
  if [ $rc -eq 1 ] && grep -q "^VIOLATION property=$prop" $log; then echo "$name $prop caught $cls" | tee -a $OUT
  elif [ $rc -eq 0 ]; then echo "$name $prop MISSED" | tee -a $OUT
  else echo "$name $prop rc=$rc $(grep -m1 HARNESS-ERROR $log | cut -c1-160) $cls" | tee -a $OUT; fi
}
for d in seeded/*/; do
  t=$(basename $d); prop=$(python3 -c "import json;print(json.load(open('$d/meta.json'))['property'])")
  run_one $t $d/patch.diff $prop "$@"
done
for f in mutants/*.diff; do
  n=$(basename $f .diff); prop=${n%%-*}
  run_one $n $f $prop "$@"
done
echo "---"; sort $OUT | awk '{print $3}' | sort | uniq -c
